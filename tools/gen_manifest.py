#!/usr/bin/env python3
"""Regenerate /verif/MANIFEST.json from the registry below (kept valid at all times)."""
import json
import os
import subprocess

ROOT = os.path.dirname(os.path.dirname(os.path.abspath(__file__)))

ALL = ["C%02d" % i for i in range(1, 19)]

# id -> (category, technique, text, note, design_ref)
CHECKS = {
    "C14": ("exploration",
            "exhaustive enumeration of every (rust target minor 1.50..1.86|nightly) x edition x trigger header on the real "
            "implementation, checked against an independent stabilisation table + monotonicity + rustc 1.95",
            "Every selectable target/edition pair is executed on the real generator; each gated construct found in the output "
            "is compared with the version in which Rust stabilised it, the set of enabled constructs must grow monotonically, "
            "unsupported pairs must be rejected, defaults must equal the newest known release, and every stable output is "
            "type-checked by rustc 1.95. The space is finite and enumerated completely.",
            "Stabilisation table written by hand from the Rust release notes; only rustc 1.95 is installed so older targets "
            "are judged by token scan; trigger headers cover the gated constructs listed in the property.",
            "6/C14"),
    "C13": ("exploration",
            "exhaustive enumeration of option rows x value domains, all boolean pairs, interacting pairs and header multiplicities; "
            "each configuration executed in both directions on the real builder / CLI parser in worker processes",
            "Every option row (hand-written flag<->method table, completeness checked against --help and options/mod.rs) is "
            "round-tripped builder->flags->builder (flag list fix-point, byte-identical bindings on a C and a C++ feature header) "
            "and compared flag-vs-documented-method; all pairs of boolean rows and 30 interacting pairs likewise.",
            "The correspondence table is hand-written from the help text; options that cannot be expressed on the command line "
            "(callbacks, header_contents, rustfmt path) are outside the claim; quick tier runs a VERIF_SEED-rotated quarter of the "
            "boolean pairs.",
            "6/C13"),
    "C18": ("model_checking",
            "explicit-state exhaustive enumeration: every item sequence up to a length bound (plus all short-period long "
            "sequences) is pushed through the real post-processing passes via hook H4; invariants + idempotence + reference model "
            "evaluated on every result",
            "Pass-level model checking of the real merge_extern_blocks / sort_semantically code: all sequences of length<=4 "
            "(quick) / <=5 (thorough) over an 18-atom item alphabet x unsafe-extern on/off and all periodic sequences (period<=2|3) "
            "of length 24/48 are executed for the four pass settings; per module the multiset of items, each foreign item's "
            "(ABI, attributes, unsafety), same-kind relative order and idempotence are checked, and the result is compared with "
            "a reference model. The whole pipeline is additionally run on repository headers and generated programs.",
            "Item alphabet is finite (18 atoms, modules nested two deep); streams of mixed unsafety are not generated because "
            "bindgen cannot emit them; sort rank order itself is not part of the property (only grouping/stability).",
            "6/C18"),
    "C15": ("fault_enumeration",
            "exhaustive enumeration of scripted formatter-child behaviours (stdin mode x stdout mode x termination) and spawn "
            "faults x bindings size x rustfmt config, each executed against the real Bindings::write under a watchdog",
            "All 224 consistent (stdin incl. two streaming modes, stdout, termination) behaviours of the formatter child plus 5 spawn "
            "faults are executed against the real write()/format_tokens path on bindings of six sizes on both sides of the 64 KiB "
            "pipe-buffer and 1 MiB boundaries, and 14 behaviours x 4-6 sizes through the real CLI binary ($RUSTFMT); write must return Ok in time, the "
            "header comment and raw lines must appear exactly once and first, and for every failure mode (and the three real "
            "formatter settings) the output must tokenise to the Formatter::None token sequence.",
            "Exit 0/3 with valid UTF-8 is trusted by design and only checked for termination and preamble; trailing commas before "
            "closing delimiters are treated as layout (rustfmt/prettyplease add or drop them when re-wrapping); a child that never "
            "reads and never exits is outside the property.",
            "6/C15"),
    "C17": ("exploration",
            "exhaustive enumeration of include DAGs (all on <=4|5 nodes) x include form x guard style, conditional regions on "
            "every edge, odd names, sibling directories, several inputs, env vars; each executed on the real generator and "
            "compared with generator ground truth + clang -M; depfile parsed back by GNU make",
            "Every include graph within the bound is generated on disk and run through the real parser; the depfile (as GNU make "
            "parses it), the header_file/include_file callback log and CargoCallbacks' cargo: lines must name exactly the files "
            "that were read (reachability through active edges, cross-checked against `clang -M` on every plain-named case); "
            "environment variables that change the bindings must be reported exactly once.",
            "File contents are typedef/macro only; names outside the property's list ('=' and ':' which make cannot express) are "
            "not generated; header_contents inputs are not files and are allowed either way.",
            "6/C17"),
    "C03": ("model_checking",
            "exhaustive enumeration of every (storage size, bit offset, bit width) triple through all eight accessor entry points "
            "of the real bitfield_unit.rs against a bit-vector reference model (release + debug-assertions builds); generated "
            "records with bit-field runs compared C-vs-Rust by executed transcripts",
            "(a) The current tree's bitfield_unit.rs is compiled into a sweep program; every triple that fits in 1..=16 bytes of "
            "storage is exercised through get/set/raw_get/raw_set and the const-generic forms on three fills with values that set "
            "and clear every bit, and every bit of the storage is compared with a Vec<bool> model. (b) bit-field runs in generated "
            "structs/unions are written on one side (C or Rust) and read on the other.",
            "Little-endian host only; values are a bit-position-complete alphabet rather than all 2^64; the known ninth-byte "
            "defect is attributed by the closed-form predicate offset%8+width>64.",
            "6/C03"),
    "C07": ("model_checking",
            "exhaustive enumeration of the real work-list schedules (every valid topological re-ordering of <=6 top-level "
            "declarations per graph, every repository header as written), each executed on the implementation with hooks H1/H2: "
            "post-convergence rule re-application + Kleene reference from bottom, consult probes in lookup_*; inventories compared "
            "across orders",
            "Every schedule the nine analyses can actually take for the declaration graphs (one per valid declaration order) is "
            "executed; after the production loop every rule is re-applied until nothing changes and a round-robin iteration from "
            "bottom is computed on separate instances; a fact that is unstable or not least AND consulted by a later analysis or by "
            "code generation is a violation; the emitted items must be the same multiset for every order of a graph.",
            "Arbitrary work-list pop orders are deliberately not explored (production never takes them; see DESIGN.md); graphs have "
            "<= 6 declarations; facts that are unstable but never consulted are only counted.",
            "6/C07"),
    "C11": ("model_checking",
            "controlled-scheduler exploration of the real implementation: every interleaving of gate-to-gate segments (hook H3) of "
            "2-3 generating threads, one fresh process per schedule; plus exhaustive enumeration of generation histories in one "
            "process; CLI process matrix and free-running threads as labelled sampling",
            "All sequences of <=2 (quick) / <=3 (thorough) generations over an 8-job alphabet (first libclang use, templates, "
            "use-core, two bit-field headers, static wrappers + depfile + macro fallback, overlapping ABI overrides, enum styles) are "
            "run in fresh processes, and all interleavings of phase-gated generations on 2 and 3 real threads are executed under a "
            "harness scheduler; bindings, depfile, wrapper source and callback sequence of every generation must equal the job's "
            "fresh-process output. Repository headers are generated twice from a cloned builder.",
            "Threads are serialised at gate granularity (races inside a segment are not explored); RandomState seeds and ASLR are "
            "chosen by the OS and only sampled by the process matrix; the working directory is treated as an input.",
            "6/C11"),
    "C12": ("fault_enumeration",
            "exhaustive single-line mutation (delete / duplicate / swap at every line) of repository headers classified by the "
            "clang binary, depth sweeps 1..200 in four nesting families, every option row x header, and an enumerated list of "
            "input-path faults; each executed on the real generator in watchdog-supervised worker processes",
            "Every mutant, depth, option row and fault case is executed under catch_unwind with a per-job timeout and address-space "
            "cap in a worker process (death, stack overflow or hang is attributed to the job); accepted inputs must yield bindings, "
            "rejected ones Err(ClangDiagnostic) carrying clang's message, path faults their specific error variant.",
            "Acceptance oracle is the clang 14 binary with the same arguments (-fno-spell-checking), calibrated per header on the "
            "unmutated text; identifier/literal substitution (12 tokens at every identifier position of a 60-header subset) and splices (30-header subset) in the thorough tier; quick tier takes every 16th header.",
            "6/C12"),
    "C06": ("exploration",
            "exhaustive enumeration of the record family (<=2 members x attributes x struct/union, member-aligned variants) x 8 "
            "targets x assertion forms x namespaces; assertions parsed back from the syn inventory and compared with clang's "
            "constant tables per target; on/off comparison of everything else",
            "For every record and target the real generator is run with --target=T; each record definition must carry a size, an "
            "alignment and one offset assertion per named non-bit-field member, with exactly the numbers `clang --target=T` folds "
            "for sizeof/_Alignof/offsetof; concrete template instantiations must have size+alignment assertions; with layout tests "
            "off no assertion item may remain and every other item must be token-identical.",
            "__int128 is left out (absent on 32-bit targets); members of anonymous nested records are checked for presence of "
            "their assertion, not for the number; foreign-target numbers come from constant folding, nothing is executed.",
            "6/C06"),
    "C10": ("exploration",
            "exhaustive enumeration of inner records (<=2 members over 12 atoms x 4 attributes x struct/union) x 5 blocklist/opaque "
            "modes, each used in 5 positions; inventory + rustc with a trait-less stand-in + C-vs-Rust layout of the container; "
            "same-name struct/function/variable triples x kind-specific blocklists",
            "For every inner record and mode the real generator runs on a header that uses the record as member, array element, "
            "pointee, parameter/result and typedef target; the blocklisted name must not be defined while every use still names it, "
            "the bindings must compile against a stand-in of the C size/alignment that implements no trait (so no derive went "
            "through it; with a vouching callback the derives must reappear), opaque types must be exact member-less blobs, and the "
            "container's size/alignment/offsets must equal the C compiler's.",
            "Host target only; C++ use positions (bases, template arguments, std-like namespaces, derived-from-opaque classes, "
            "blocklist-file) are a fixed seven-mode part with a clang++-vs-rustc layout probe, not a generated family; stand-in sizes "
            "come from the clang probe.",
            "6/C10"),
    "C02": ("exploration",
            "exhaustive enumeration of records (<=2 members over 30 member atoms x 12 record attributes x struct/union, member "
            "attributes; 3-member records over a sub-alphabet in the thorough tier), each observed by a clang-built and a "
            "rustc-built probe over the real bindings, under the default options and 16 presentation options",
            "For every record both compilers print size, alignment, member offsets and sizes; both sides store the same boundary "
            "values into a zeroed object and the object bytes and the values read back (signedness, width) must be identical; every "
            "presentation option is re-run and must not move any number.",
            "Host target only; values are boundary values per member kind; records whose bindings rustc rejects are left to C01; "
            "known unrepresentable families (packed+over-aligned, explicit padding with bit-fields) are attributed by structural "
            "predicate.",
            "6/C02"),
    "C01": ("exploration",
            "exhaustive enumeration of the record family x 7 use contexts, a C++ name-collision family and 30 C++ shapes, x 35 option "
            "rows within one deviation; plus every repository header; each compiled by rustc 1.95 (--emit=metadata evaluates the "
            "embedded const assertions)",
            "The bindings the real generator emits for every case and option row are type-checked by rustc for the selected "
            "edition, embedded layout assertions included; failures are attributed to single cases through rustc's JSON spans and "
            "re-generation without the offending cases.",
            "Headers needing a callback, an external crate or nightly features are skipped by rule; mutants of repository headers "
            "are exercised for panic-freedom by C12 rather than compiled; known unrepresentable shapes are attributed by "
            "(error codes, structural class).",
            "6/C01"),
    "C08": ("exploration",
            "exhaustive enumeration of records (<=2 members over a 24-atom rule-hitting alphabet x struct/union x 3 attributes) x "
            "all 2^8 derive-option combinations x impl-debug/impl-partialeq; trait presence read from the syn inventory and compared "
            "with an independent three-valued specification; hand-written impls executed",
            "Every (record, option combination, trait) triple is compared with MUST-NOT / MUST-HAVE / FREE expectations computed "
            "from the generator's own description of the record (floats vs Eq/Ord/Hash, raw pointers and 33-element arrays vs "
            "Default, Rust unions, 13-parameter function pointers incl. typedef'd spellings, disabled options; plain data must get "
            "every requested trait); Default/PartialEq/Debug impls are executed on zeroed and one-member-changed objects.",
            "The specification is deliberately three-valued (non-plain attributes, mixed members and trait dependencies are FREE); "
            "enum members are integers under the default enum style; C++ rules (destructors, vtables, templates) are exercised "
            "through C07's fix-point hooks and C01's compile check rather than here.",
            "6/C08"),
    "C05": ("exploration",
            "exhaustive enumeration of macro expressions up to depth 1 (every unary operator x every literal, every binary operator "
            "x every pair of a literal sub-alphabet, ternaries, casts, sizeof, references, characters, strings), enum value tuples x "
            "underlying types x 7 styles x 2 x 2 options, const variables; x 5 macro option variants; oracle = clang constant folding",
            "Every emitted constant is compared with the value and C type clang itself folds for the same header (LLVM IR, nothing "
            "executed): the value must be equal and the Rust type's range must contain it; omission is acceptable. Mismatches are "
            "attributed to the known untyped-wrapping-i64 evaluation of `cexpr` only when bindgen's value equals the M64 reference "
            "evaluator's prediction for that expression.",
            "Expressions clang diagnoses (overflow, bad shifts, division by zero) are excluded; float macros are not value-checked; "
            "depth-2 expressions over a 6-literal alphabet x all operator pairs in the thorough tier (154 k macros).",
            "6/C05"),
    "C09": ("exploration",
            "exhaustive enumeration of dependency graphs (every 3-node chain over 6 node kinds x edge kinds, diamonds, pointer "
            "cycles) x every non-empty root subset x regex forms x allowlist kinds x recursive/non-recursive x blocklists, each run "
            "on the real generator and compared with the generator's own dependency relation, the un-allowlisted bindings, and rustc",
            "For every graph and root subset the emitted item set must equal the closure of the roots in the generator's mentions "
            "relation (nothing missing, nothing unrelated), every emitted item must be token-identical to the same item of the full "
            "bindings, the output must compile on its own, patterns are whole-name anchored (prefix traps, alternations), and an item "
            "matched by both lists is absent; unnamed enums are addressed through their variants, also inside namespaces.",
            "Pointer mentions count as dependencies (bindgen defines pointee types it has seen); blocklisted-root and non-recursive "
            "outputs are not compiled; also run: generator-restriction variants (--ignore-functions, --generate types), every split of "
            "each graph over two included files with --allowlist-file, and an anonymous-items part (three unnamed enums, anonymous "
            "records; every root subset x four enum styles).",
            "6/C09"),
    "C04": ("exploration",
            "exhaustive enumeration of function signatures over a 51-type alphabet (every type as result / parameter, all ordered "
            "parameter pairs, struct x struct, triples, variadic tails, register exhaustion, Win64-ABI functions, keyword and `$` "
            "names, function-pointer results) and globals x 8 option rows; each linked against a clang-compiled object and executed",
            "clang compiles C definitions that fold every argument leaf into an FNV-1a hash stored in a global and derive every "
            "result leaf from it; a rustc-built caller links against that object, calls every function three times through the real "
            "bindings with rotating boundary values and compares with the same fold computed in Rust; linking proves symbol identity, "
            "globals are read/written from both sides and checked for mutability.",
            "Host ABI (SysV x86-64 + ms_abi) only; long double is left out (no 80-bit float in Rust); foreign-target symbol "
            "decoration is not generated; C++ classes are a fixed 20-test part linked against a clang++ object (one process per "
            "test); a linkage part compares every declared symbol with nm for static / inline / extern-inline functions; the fold is "
            "salted with the function's name so that reaching another function's symbol is observable.",
            "6/C04"),
    "C16": ("exploration",
            "exhaustive enumeration of static / static-inline function signatures over the C04 alphabet x suffix x path x input mode "
            "x language; the emitted wrapper source is compiled by clang, its symbols listed by nm, and a rustc-built caller linked "
            "with it executes every binding",
            "For every static function the emitted wrapper source must compile against the headers, define exactly one external "
            "<name><suffix> per function that received a binding (variadic statics: none), and calling the binding must produce the "
            "result and the global side effect that the argument fold specifies (the same fold C04 validates against compiled C).",
            "Host target only; calling a va_list wrapper is not done; a failure to build or run the caller is attributed to the "
            "whole library; also run: 22 odd-type functions x {default, --prefix-link-name} through the CLI and six regenerate-after-"
            "edit histories on one wrapper path.",
            "6/C16"),
}


# additions of the third session: (technique suffix, text suffix) per property
EXTRA = {
    "C01": ("; plus every PAIR of the rows that change how a record is emitted on a fixed layout-sensitive family (incl. 3-member records with a trailing flexible array); renaming callbacks; module-structure shapes alone in their header",
            " Option pairs (two deviations from the defaults) are enumerated exhaustively over the emission-changing rows."),
    "C02": ("; plus exhaustive enumeration of the same records for 10 foreign target triples, decided by rustc const evaluation for the target (per-target sysroot) of assertions built from clang's constant tables; C++ empty-base shapes; anonymous over-aligned members; C++ layout shapes for foreign targets",
            " Foreign targets: size / alignment / offsets as rustc computes them for T vs clang --target=T, nothing executed."),
    "C03": ("; the sweep is also executed for big-endian and 32-bit targets under the miri interpreter against an independent integer model; the record family is also run for foreign targets (miri vs bytes cut from clang --target objects) and as C++ class templates; one run longer than 2^16 bits; typeof-spelled base types",
            " The cfg!(target_endian = \"big\") branches are executed (interpreted) on every explored triple; big-endian C semantics are bound through clang-built object images."),
    "C04": ("; plus per-target symbol tables (ELF, Mach-O) of asm-labelled and C++ declarations, and same-name signatures with different calling conventions; pointers to typedefs of function types",
            " Symbol identity is also decided for other triples from clang --target object files (undefined-symbol tables), without execution."),
    "C05": ("; every integer kind as fixed underlying enum type; clang arguments by every route (after --, environment, target-specific variable, split) with and without the macro fallback; enum representation on foreign targets", ""),
    "C06": ("; records beyond 1 MiB / 16 MiB; pointer-only instantiations of union templates; target through the build-script environment; offsets past 2^31 / 2^32 bits", ""),
    "C07": ("; plus large graphs (9 000 records behind one typedef, about 27 000 IR items) with the deciding declaration first / middle / last; anonymous-member graphs; every C++ graph under other spellings of the language", ""),
    "C08": ("; variadic function pointers at the limit; user-excluded types (exact / regex, global / namespaced / nested, derived and hand-written impls, control types); several bit-field units per record; plain-data records under no-recursive-allowlist", ""),
    "C09": ("; counted-repetition pattern forms; records containing the definitions of named inner types with and without no-recursive-allowlist; option-dependent closures (no-size_t-is-usize, file + item allowlists)", ""),
    "C10": ("; names mapped by name (stdint / stddef) when blocklisted; blocklist-file through .., symlinked directories and files; blocklisted types behind typedefs with hand-written impls on; bulk pattern families", ""),
    "C11": ("; collision-twin jobs (same names, unit sizes, wrapper symbols, one wrapper path, hash-ordered blocks) and every length-2 history also with one thread per generation; second group of twins (asm labels under -D, C then C++ system headers, failed formatter first, replaces + anonymous types)",
            " Histories force collisions: jobs re-use the names, sizes and paths of other jobs with different definitions."),
    "C12": ("; the depth family also through the release and the dev-profile CLI binaries; generations on later threads; sequences of different inputs in one process; calling conventions on symbol-decorating targets", ""),
    "C13": ("; regex values containing list separators; the single rows again with BINDGEN_EXTRA_CLANG_ARGS set; headers found only along an include path; relative header paths with file patterns; carve-out pairs", ""),
    "C14": ("; trigger headers for records beyond 1 MiB and for --target=i686-pc-windows-msvc (thiscall vtables, stdcall / fastcall / vectorcall); core float aliases; target/edition call order through the library", ""),
    "C15": ("; formatter behaviours that flood stderr; string-dominated large bindings for the real formatters; failing formatters after multi-byte output", ""),
    "C16": ("; wrappers for other target triples checked against clang --target objects (llvm-nm); in-process histories of generations with same-named static functions; option changes on an untouched header; wrapper/function type compatibility per target", ""),
    "C17": ("; several in-memory inputs and mixes of real and in-memory inputs", ""),
    "C18": ("; atoms that declare one link symbol under several Rust names (20-atom alphabet)", ""),
}
for _k, (_t, _x) in EXTRA.items():
    if _k in CHECKS:
        c = CHECKS[_k]
        CHECKS[_k] = (c[0], c[1] + _t, c[2] + _x, c[3], c[4])

PENDING = set()  # built but unchanged-tree findings not yet triaged: not claimed until the quick tier is clean
for _p in PENDING:
    CHECKS.pop(_p, None)

NOT_YET = "check not built yet in this round (see DESIGN.md section 10a for the plan)"


def main():
    repo_head = subprocess.run(["git", "-C", "/repo", "log", "--format=%h %s"], capture_output=True, text=True).stdout
    hook_commits = [l.split()[0] for l in repo_head.splitlines() if l.split(" ", 1)[1].startswith("hooks:")]
    checks = []
    for pid in ALL:
        if pid not in CHECKS:
            continue
        cat, tech, text, note, ref = CHECKS[pid]
        checks.append({
            "property_id": pid,
            "quick_cmd": f"./vcheck check {pid} --tier quick",
            "thorough_cmd": f"./vcheck check {pid} --tier thorough",
            "evidence_file": f"/verif/evidence/{pid}.json",
            "replay_cmd_template": "./vcheck replay {path}",
            "engine": "vcheck",
            "level_claimed": {"category": cat, "text": text, "design_ref": "DESIGN.md " + ref},
            "level_note": note,
            "technique": tech,
        })
    man = {
        "version": 1,
        "setup_cmd": "./vcheck setup",
        "hooks": {
            "guard": "cargo feature __verif_hooks on the bindgen crate (default off)",
            "enable": "harness/vdriver depends on /repo/bindgen with features [__cli, experimental, __verif_hooks]; "
                      "`cargo build --release --offline --features hooks` in /verif/harness (done by every check)",
            "baseline_off_cmd": "cd /repo && cargo nextest run --workspace --no-fail-fast --tool-config-file "
                                "pb:/w/lib/nextest.toml --profile pb --test-threads 8 --offline",
            "source_commits": hook_commits,
            "add_only": True,
        },
        "engines": [
            {"name": "vcheck", "path": "/verif/vcheck",
             "serves_properties": sorted(CHECKS),
             "kind_free_text": "python driver (vplib/*) enumerating bounded spaces; executes the real implementation through "
                               "harness/vdriver (Rust, linked against /repo/bindgen with hooks) and the production CLI; "
                               "oracles: clang 14 (host and --target=T), rustc 1.95, nightly rustc / miri with per-target sysroots (foreign targets), GNU make, reference models"},
        ],
        "checks": checks,
        "not_applicable": [{"property_id": p, "reason": NOT_YET} for p in ALL if p not in CHECKS],
        "notes": "Known findings: /verif/KNOWN_FINDINGS.jsonl. Seeded property-breaking changes: /verif/seeded/. "
                 "Scratch: /verif/work (git-ignored).",
    }
    with open(os.path.join(ROOT, "MANIFEST.json"), "w") as f:
        json.dump(man, f, indent=1)
    print("MANIFEST.json: %d checks, %d not_applicable" % (len(checks), len(man["not_applicable"])))


if __name__ == "__main__":
    main()
