#!/usr/bin/env python3
"""Rebuild the predicate lists of the C01 known-finding records from a run whose violations.jsonl holds EVERY case
(i.e. a run made while the records' predicates do not match: after the predicate format changed). Only predicates
whose error-code signature already has a reviewed record are placed; everything else is printed for triage."""
import collections
import json
import sys

src = sys.argv[1] if len(sys.argv) > 1 else "/verif/work/C01/violations.jsonl"
by_sig = collections.defaultdict(set)
other = collections.Counter()
for l in open(src):
    d = json.loads(l)
    p = d.get("predicate") or ""
    if p.startswith("repo|") or p.count("|") != 2:
        other[(p, d["case"][:80])] += 1
        continue
    by_sig[p.split("|")[0]].add(p)
lines = open("/verif/KNOWN_FINDINGS.jsonl").read().split("\n")
seen = set()
for i, l in enumerate(lines):
    if not l.startswith("{"):
        continue
    r = json.loads(l)
    if r["property"] != "C01" or "predicates" not in r:
        continue
    sig = r["id"][len("C01-"):].replace("+", ",")
    seen.add(sig)
    old = set(r["predicates"])
    new = set(by_sig.get(sig, set()))
    # a (sig|class) pair that was reviewed before stays reviewed for the option rows it actually fails under
    reviewed = {"|".join(p.split("|")[:2]) for p in old}
    keep = {p for p in new if "|".join(p.split("|")[:2]) in reviewed}
    unreviewed = new - keep
    r["predicates"] = sorted(keep)
    lines[i] = json.dumps(r)
    print(f"{r['id']}: {len(old)} -> {len(keep)} predicates; unreviewed (left as violations): {len(unreviewed)}")
    for p in sorted(unreviewed)[:10]:
        print("    ", p)
for sig in by_sig:
    if sig not in seen:
        print("NO RECORD for signature", sig, sorted(by_sig[sig])[:5])
for k, n in other.most_common(20):
    print("other:", n, k)
open("/verif/KNOWN_FINDINGS.jsonl", "w").write("\n".join(lines))
