#!/bin/bash
# usage: try_seed5.sh <seed dir name e.g. C05r5-A> [check id] [tier]
# Like try_seed4.sh, but on a PRIVATE copy of the repository (/var/tmp/repo2, a worktree of /repo HEAD) with its own build / work /
# evidence directories, so that it can run while /repo itself is in use. Appends to seeded/R5_FIRST_RUN.txt on the first trial.
s=$1; id=${2:-${s:0:3}}; tier=${3:-quick}
d=/verif/seeded/$s; R=/var/tmp/repo2
[ -d $R ] || git -C /repo worktree add --detach $R HEAD >/dev/null 2>&1
git -C $R checkout -q --detach $(git -C /repo rev-parse HEAD) 2>/dev/null; git -C $R checkout -- . 
git -C $R apply $d/patch.diff || { echo "patch does not apply"; exit 2; }
mkdir -p /verif/work/dev
cd /verif && VERIF_REPO=$R VERIF_BUILD=/verif/work/devbuild VERIF_WORK=/verif/work/dev VERIF_EVIDENCE=/verif/work/dev/evidence ./vcheck check $id --tier $tier > /verif/work/dev/try_${s}_$id.log 2>&1; rc=$?
git -C $R checkout -- .
nv=$(grep -c "^VIOLATION" /verif/work/dev/try_${s}_$id.log)
first=$(grep -A2 '^VIOLATION' /verif/work/dev/try_${s}_$id.log | grep 'case:' | head -1 | cut -c9-200)
echo "$s $id exit=$rc violations=$nv | $first"
grep -q "^$s $id " /verif/seeded/R5_FIRST_RUN.txt 2>/dev/null || echo "$s $id exit=$rc violations=$nv | $first" >> /verif/seeded/R5_FIRST_RUN.txt
