#!/bin/bash
# usage: seed_new.sh <id e.g. C05r4>   create a scratch worktree of /repo HEAD with a warm build cache and print the prompt path
id=$1; pid=${id:0:3}
mkdir -p /tmp/seed
git -C /repo worktree add --detach /tmp/seed/$id HEAD >/dev/null 2>&1 || { echo "worktree failed"; exit 2; }
mkdir -p /tmp/seed/$id/target && cp -r /repo/target/debug /tmp/seed/$id/target/debug
rm -rf /tmp/seed/$id/target/debug/build/bindgen-tests-*
python3 /verif/tools/seed_prompt${id:4:1}.py $pid > /tmp/seed/prompt_$id.txt
echo /tmp/seed/prompt_$id.txt
