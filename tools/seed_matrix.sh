#!/bin/bash
# usage: seed_matrix.sh [ids...]   For every confirmed seed: apply to /repo, run the target property's quick check (and any
# extra checks listed in seeded/EXTRA_CHECKS), revert; writes seeded/<ID>-<X>/detect_<CHECK>.json and seeded/RESULTS.md.
cd /verif
sel="$@"
for d in seeded/C??-? seeded/C??r?-?; do
  [ -d $d ] || continue
  s=$(basename $d); id=${s:0:3}
  if [ -n "$sel" ] && ! echo " $sel " | grep -q " $s "; then continue; fi
  patch=$d/patch.diff; [ -f $d/patch_rebased.diff ] && patch=$d/patch_rebased.diff
  checks="$id $(grep "^$s " seeded/EXTRA_CHECKS 2>/dev/null | cut -d' ' -f2-)"
  for chk in $checks; do
    if ! git -C /repo diff --quiet; then echo "/repo dirty"; exit 2; fi
    if ! git -C /repo apply /verif/$patch 2>/dev/null; then echo "$s $chk patch-does-not-apply"; python3 -c "import json;json.dump({'seed':'$s','check':'$chk','applies':False},open('$d/detect_$chk.json','w'))"; continue; fi
    ./vcheck check $chk --tier quick > work/seedrun_${s}_$chk.log 2>&1; rc=$?
    git -C /repo checkout -- .
    nv=$(grep -c '^VIOLATION' work/seedrun_${s}_$chk.log)
    first=$(grep -A2 '^VIOLATION' work/seedrun_${s}_$chk.log | grep 'case:' | head -1 | cut -c9-200)
    python3 - "$s" "$chk" "$rc" "$nv" "$first" "$patch" <<'PY'
import json,sys
s,chk,rc,nv,first,patch=sys.argv[1:7]
json.dump({"seed":s,"check":chk,"applies":True,"patch":patch,"exit":int(rc),"violation_lines":int(nv),"first_case":first,"detected":int(rc)==1},open(f"/verif/seeded/{s}/detect_{chk}.json","w"),indent=1)
PY
    echo "$s $chk exit=$rc violations=$nv | $first"
  done
done
