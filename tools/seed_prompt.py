#!/usr/bin/env python3
"""Print the sub-agent prompt for seeding a property-breaking change (contains only the property text)."""
import json, sys
pid = sys.argv[1]
for l in open('/verif/properties.jsonl'):
    p = json.loads(l)
    if p['id'] == pid:
        break
else:
    sys.exit("no such property")
wt = f"/tmp/seed/{pid}"
print(f"""You are helping test a verification effort for rust-lang/rust-bindgen (a libclang-driven translator from C/C++ headers to Rust FFI bindings). You have your own scratch git worktree of the repository at {wt} (already created; its target/ directory holds a warm debug build cache). Work ONLY inside {wt}. Do not read or write anything under /verif or /repo. The sandbox is offline (always pass --offline to cargo).

Here is a semantic property that rust-bindgen is supposed to satisfy:

TITLE: {p['title']}
STATEMENT: {p['statement']}
QUANTIFIED OVER: {p['quantifier']['text']}
RELEVANT FILES: {', '.join(p['anchors']['files'])}

YOUR TASK: produce TWO different, independent, realistic source changes to rust-bindgen (each a small patch to files under {wt}/bindgen/ or bindgen-cli/), each of which BREAKS this property while the crate still compiles and the existing test suite still passes exactly as before. They should look like plausible developer mistakes or well-meant refactorings/optimisations (an off-by-one, a dropped edge/case, a cache made static, a reordered step, a condition weakened, an early return, state shared where it should not be ...), NOT sabotage that ordinary use would expose at once. Prefer changes that need something specific to manifest: a particular input shape, a particular ordering of declarations, an unusual option combination, a multi-step sequence of operations in one process, a fault at a particular point, a particular thread interleaving, or two cooperating sites that each look fine alone. The two changes should break the property through different mechanisms/sites.

For EACH change (call them A and B):
1. Make the edit in the worktree, confirm `cd {wt} && cargo build --offline -p bindgen -p bindgen-cli` succeeds.
2. Run the existing test suite and confirm the same tests pass as on the unchanged tree: `cd {wt} && cargo nextest run --workspace --no-fail-fast --tool-config-file pb:/w/lib/nextest.toml --profile pb --test-threads 8 --offline 2>&1 | tail -15`. On the unchanged tree exactly 690 tests pass and exactly 3 fail (header_atomic_constant_h, header_issue_753_h, header_ptr32_has_different_size_h - these 3 always fail here, ignore them). Your change must keep that result (690 passed, the same 3 failed). If any additional test fails, pick a different change.
3. Write a demonstration: a self-contained shell script `{wt}/SEED/<A|B>/demo.sh` (plus any header files / small Rust or C programs it needs next to it, in the same directory) that uses the built `{wt}/target/debug/bindgen` CLI (or a tiny cargo example/test inside the worktree if the CLI is not enough, e.g. for in-process or threading behaviour) and exits 0 when the property holds for the demonstrated input and non-zero when it is violated. It must FAIL (non-zero) with your change applied and PASS (0) on the unchanged tree. Verify both directions yourself (use `git stash` / `git checkout` to flip, rebuilding each time). clang, rustc and rustfmt are installed.
4. Save the change as `{wt}/SEED/<A|B>/patch.diff` (output of `git diff` for the source files only, applicable with `git apply` at the repository root), and write `{wt}/SEED/<A|B>/NOTES.md` with: what the change is, why it looks plausible, what exactly is needed for the violation to manifest (input shape / order / options / sequence / interleaving / fault), and the commands you ran with their results (test-suite tallies, demo exit codes with and without the change).
5. Revert the source change (`git checkout -- bindgen bindgen-cli`) before starting the next one, leaving only the SEED/ directory as an untracked addition.

Be economical: builds take ~1 minute, the full suite ~2-4 minutes. Do not modify tests or expectation files. Do not commit. When finished, reply with a short summary: for each of A and B, one paragraph describing the change, the trigger, and the verified results (suite tally, demo exit code with/without). If you could only produce one change, say so.""")
