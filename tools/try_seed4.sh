#!/bin/bash
# usage: try_seed4.sh <seed dir name e.g. C17r4-A> [check id] [tier]
# Apply the seeded change to /repo, run the check with its own build / work / evidence directories (so that nothing a
# concurrent run from the unchanged tree uses is replaced), always undo. Appends one line to seeded/R4_FIRST_RUN.txt when
# the seed has no entry there yet.
s=$1; id=${2:-${s:0:3}}; tier=${3:-quick}
d=/verif/seeded/$s
patch=$d/patch.diff; [ -f $d/patch_rebased.diff ] && patch=$d/patch_rebased.diff
cd /repo || exit 2
if ! git diff --quiet; then echo "/repo has uncommitted changes"; exit 2; fi
git apply "$patch" || { echo "patch does not apply"; exit 2; }
mkdir -p /verif/work/seedtrial
cd /verif && VERIF_BUILD=/verif/work/seedbuild VERIF_WORK=/verif/work/seedtrial VERIF_EVIDENCE=/verif/work/seedtrial/evidence ./vcheck check $id --tier $tier > /verif/work/seedtrial/try_${s}_$id.log 2>&1; rc=$?
git -C /repo checkout -- .
nv=$(grep -c "^VIOLATION" /verif/work/seedtrial/try_${s}_$id.log)
first=$(grep -A2 '^VIOLATION' /verif/work/seedtrial/try_${s}_$id.log | grep 'case:' | head -1 | cut -c9-200)
echo "$s $id exit=$rc violations=$nv | $first"
grep -q "^$s $id " /verif/seeded/R4_FIRST_RUN.txt 2>/dev/null || echo "$s $id exit=$rc violations=$nv | $first" >> /verif/seeded/R4_FIRST_RUN.txt
tail -2 /verif/work/seedtrial/try_${s}_$id.log | cut -c1-300
