#!/usr/bin/env python3
"""Write seeded/<ID>-<X>/meta.json and seeded/RESULTS.md from NEEDS.json, confirm.json and detect_*.json."""
import glob
import json
import os

root = "/verif/seeded"
needs = json.load(open(f"{root}/NEEDS.json"))
rows = []
for d in sorted(glob.glob(f"{root}/C??-?") + glob.glob(f"{root}/C??r?-?")):
    s = os.path.basename(d)
    conf = json.load(open(f"{d}/confirm.json")) if os.path.exists(f"{d}/confirm.json") else {}
    dets = [json.load(open(p)) for p in sorted(glob.glob(f"{d}/detect_*.json"))]
    meta = {
        "seed": s,
        "breaks_property": s[:3],
        "round": 5 if "r5" in s else (4 if "r4" in s else (2 if "r2" in s else 1)),
        "first_run_before_any_strengthening": needs.get(s, {}).get("first_run"),
        "change": needs.get(s, {}).get("change"),
        "needs_in_order_to_manifest": needs.get(s, {}).get("needs"),
        "confirmation": {
            "what_was_run": "tools/confirm_seed.sh: fresh worktree of the pinned commit, git apply patch.diff, cargo build -p bindgen -p bindgen-cli, "
                            "the BASELINE nextest command, demo.sh with the change, git checkout, rebuild, demo.sh without the change",
            **conf},
        "detection": [{"check": x["check"], "patch": x.get("patch"), "exit": x.get("exit"), "violation_lines": x.get("violation_lines"),
                       "first_reported_case": x.get("first_case"), "detected": x.get("detected")} for x in dets],
        "note": ("patch_rebased.diff is the same change re-applied on top of later fix: commits that touch the same function"
                 if os.path.exists(f"{d}/patch_rebased.diff") else None),
    }
    json.dump(meta, open(f"{d}/meta.json", "w"), indent=1)
    rows.append((s, needs.get(s, {}).get("change", ""), conf.get("confirmed"), dets, needs.get(s, {}).get("first_run", "")))
with open(f"{root}/RESULTS.md", "w") as f:
    f.write("# Seeded property-breaking changes: which check reports which\n\n"
            "Produced by tools/seed_matrix.sh + tools/seed_meta.py (apply the patch to /repo, run the quick tier of the check, revert).\n\n"
            "Round-2 seeds (r2) were written after round 1 was published to the agents as 'already done'; the last column says what happened the first "
            "time each was tried, before any check was changed.\n\n"
            "| seed | change | confirmed (suite 690/3, demo fails/passes) | detected by (quick tier) | first reported case | first run |\n|---|---|---|---|---|---|\n")
    for s, ch, conf, dets, fr in rows:
        det = ", ".join(f"{x['check']}{'' if x.get('detected') else ' (missed)'}" for x in dets) or "not run"
        first = next((x.get("first_case") or "" for x in dets if x.get("detected")), "")
        f.write(f"| {s} | {ch} | {conf} | {det} | {first[:110]} | {fr} |\n")
print("meta written for", len(rows))
