#!/bin/bash
# usage: seed_collect.sh <id e.g. C05r4>  copy SEED/{A,B} of a finished agent worktree into tracked /verif/seeded/<id>-<X>/ and remove the worktree
id=$1
for x in A B; do
  [ -d /tmp/seed/$id/SEED/$x ] || continue
  mkdir -p /verif/seeded/$id-$x
  cp -r /tmp/seed/$id/SEED/$x/. /verif/seeded/$id-$x/
  find /verif/seeded/$id-$x -name target -type d -prune -exec rm -rf {} +
  find /verif/seeded/$id-$x -size +2M -type f -delete
done
git -C /repo worktree remove --force /tmp/seed/$id
du -sh /verif/seeded/$id-* 2>/dev/null
