#!/usr/bin/env python3
"""Development-time helper: group the violations of the last run of a check by attribution predicate and print
candidate KNOWN_FINDINGS records for review. Nothing is ever added to KNOWN_FINDINGS.jsonl automatically."""
import collections
import json
import sys

pid = sys.argv[1]
path = sys.argv[2] if len(sys.argv) > 2 else f"/verif/work/{pid}/violations.jsonl"
rows = [json.loads(l) for l in open(path)]
groups = collections.defaultdict(list)
for r in rows:
    groups[r.get("predicate")].append(r)
print(f"# {len(rows)} violations, {len(groups)} predicates", file=sys.stderr)
for pred, rs in sorted(groups.items(), key=lambda kv: -len(kv[1])):
    print(json.dumps({"predicate": pred, "n": len(rs), "examples": [x["case"][:110] for x in rs[:2]], "why": rs[0]["why"][:220]}))
