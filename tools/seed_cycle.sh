#!/bin/bash
# usage: seed_cycle.sh <finished-id|-> <new-id|->   collect SEED/ of a finished worktree, remove it, create a new one
set -e
done_id=$1; new_id=$2
if [ "$done_id" != "-" ]; then
  rm -rf /verif/seeded/_incoming/$done_id
  cp -r /tmp/seed/$done_id/SEED /verif/seeded/_incoming/$done_id
  find /verif/seeded/_incoming/$done_id -name target -type d -prune -exec rm -rf {} +
  git -C /repo worktree remove --force /tmp/seed/$done_id
fi
if [ "$new_id" != "-" ]; then
  git -C /repo worktree add --detach /tmp/seed/$new_id 41e2319d >/dev/null 2>&1
  mkdir -p /tmp/seed/$new_id/target && cp -r /repo/target/debug /tmp/seed/$new_id/target/debug
  python3 /verif/tools/seed_prompt.py $new_id > /tmp/seed/prompt_$new_id.txt
fi
du -sh /verif/seeded/_incoming/* 2>/dev/null | tail -3
