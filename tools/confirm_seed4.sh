#!/bin/bash
# usage: confirm_seed4.sh <id e.g. C17r4>   (round 4: seeds live in tracked /verif/seeded/<id>-<A|B>/, base = /repo HEAD)
# Re-creates the scratch worktree the sub-agent used (same path: demos hard-code it) and confirms for A and B:
# patch applies, builds, repository suite keeps 690 passed / same 3 failed, demo fails with the change and passes without.
# Writes /verif/seeded/<id>-<X>/confirm.json. Removes the worktree afterwards.
id=$1
wt=/tmp/seed/$id
if [ -d $wt ]; then git -C /repo worktree remove --force $wt; fi
git -C /repo worktree add --detach $wt HEAD >/dev/null 2>&1 || exit 2
mkdir -p $wt/target && cp -r /repo/target/debug $wt/target/debug
rm -rf $wt/target/debug/build/bindgen-tests-*
cd $wt
for x in A B; do
  dst=/verif/seeded/$id-$x
  [ -d $dst ] || continue
  rm -rf $wt/SEED/$x; mkdir -p $wt/SEED/$x && cp -r $dst/. $wt/SEED/$x/
  rm -f $wt/SEED/$x/confirm.json $wt/SEED/$x/detect_*.json $wt/SEED/$x/meta.json
  applies=false; builds=false; suite=""; demo_with=-1; demo_without=-1
  if git apply SEED/$x/patch.diff; then applies=true; fi
  if cargo build --offline -p bindgen -p bindgen-cli > $wt/build.log 2>&1; then builds=true; fi
  cargo nextest run --workspace --no-fail-fast --tool-config-file pb:/w/lib/nextest.toml --profile pb --test-threads 6 --offline > $wt/suite.log 2>&1
  suite=$(grep -E "Summary" $wt/suite.log | sed 's/.*tests run: //')
  failed=$(grep -E "^\s+FAIL" $wt/suite.log | awk '{print $NF}' | sort -u | tr '\n' ' ')
  bash SEED/$x/demo.sh > $wt/demo_with.log 2>&1; demo_with=$?
  git checkout -- bindgen bindgen-cli 2>/dev/null
  cargo build --offline -p bindgen -p bindgen-cli > $wt/build2.log 2>&1
  bash SEED/$x/demo.sh > $wt/demo_without.log 2>&1; demo_without=$?
  python3 - <<PY
import json
json.dump({"seed":"$id-$x","base":"$(git -C /repo rev-parse --short HEAD)","applies":"$applies"=="true","builds":"$builds"=="true","suite":"$suite","suite_failed":"$failed".split(),
 "demo_exit_with_change":$demo_with,"demo_exit_without_change":$demo_without,
 "confirmed": "$applies"=="true" and "$builds"=="true" and "$suite".startswith("690 passed, 3 failed") and $demo_with!=0 and $demo_without==0},
 open("$dst/confirm.json","w"),indent=1)
PY
  cat $dst/confirm.json | tr '\n' ' '; echo
done
cd / && git -C /repo worktree remove --force $wt
