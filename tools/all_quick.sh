#!/bin/bash
# usage: all_quick.sh <seed> [tier]  - run every registered check, print one summary line each
seed=${1:-0}; tier=${2:-quick}
cd /verif
for id in $(python3 -c "import json;print(' '.join(c['property_id'] for c in json.load(open('MANIFEST.json'))['checks']))"); do
  s=$(date +%s)
  VERIF_SEED=$seed ./vcheck check $id --tier $tier > work/allq_${id}_$seed.log 2>&1; rc=$?
  e=$(date +%s)
  echo "$id seed=$seed tier=$tier exit=$rc $((e-s))s $(grep -c '^VIOLATION' work/allq_${id}_$seed.log) violations | $(grep -E '^\[C|MACHINERY' work/allq_${id}_$seed.log | tail -1 | cut -c1-160)"
done
