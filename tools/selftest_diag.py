#!/usr/bin/env python3
"""Self-test of the per-thread diagnostics of vplib.probes.rustc_diagnose.

Two threads diagnose two different failing crates and meet at a barrier BETWEEN the return of rustc_diagnose and the read of
last_by_tag() - the interleaving in which the former process-global attribute handed one batch the other batch's dictionary
(the C01 false alarm of DESIGN.md section 11). Every thread must see the messages of its own crate only. Exit 0 / 2.
"""
import os
import sys
import tempfile
import threading

sys.path.insert(0, os.path.dirname(os.path.dirname(os.path.abspath(__file__))))
from vplib import probes  # noqa: E402


def main():
    d = tempfile.mkdtemp(prefix="diag_", dir="/var/tmp")
    srcs = {"K1": "pub struct K1 { pub a: Missing1 }\n", "K2": "pub struct K2 { pub a: u8 }\npub fn f(x: &K2) -> u16 { x.a }\n"}
    barrier = threading.Barrier(len(srcs))
    seen = {}

    def work(tag):
        sub = os.path.join(d, tag)
        os.makedirs(sub)
        p = os.path.join(sub, "b.rs")
        open(p, "w").write(srcs[tag])
        ok, tags, msgs = probes.rustc_diagnose(p, os.path.join(sub, "out"), srcs[tag], p, mode="lib")
        barrier.wait()
        seen[tag] = (ok, tags, dict(probes.last_by_tag()))

    ts = [threading.Thread(target=work, args=(t,)) for t in srcs]
    [t.start() for t in ts]
    [t.join() for t in ts]
    import shutil
    shutil.rmtree(d, ignore_errors=True)
    bad = [t for t, (ok, tags, bt) in seen.items() if ok or tags != {t} or set(bt) != {t}]
    print("selftest_diag:", {t: (sorted(v[1]), {k: m for k, m in v[2].items()}) for t, v in seen.items()})
    if bad or len(seen) != len(srcs):
        print("MACHINERY-ERROR: a thread read another thread's diagnostics", bad)
        return 2
    return 0


if __name__ == "__main__":
    sys.exit(main())
