#!/bin/bash
# For every "fixed:" entry of KNOWN_FINDINGS.jsonl: take the repair out of /repo again (reverse-apply the commit's diff to the working
# tree), run the quick check of the property it was recorded under, expect exit 1 with a VIOLATION line, put the repair back.
# Shows that each check still reports the defect it once found (a fixed entry suppresses nothing). Writes seeded/FIX_MATRIX.md.
cd /verif
out=seeded/FIX_MATRIX.md
echo "# Repairs taken out again: does the check report the defect?" > $out
echo >> $out
echo "| property | fix commit | reverse-applies | check exit | first reported case |" >> $out
echo "|---|---|---|---|---|" >> $out
grep '^fixed:' KNOWN_FINDINGS.jsonl | while read -r _ prop hash rest; do
  id=${prop#property=}
  if ! git -C /repo diff --quiet; then echo "/repo dirty"; exit 2; fi
  if git -C /repo show $hash --format= -- bindgen bindgen-cli | git -C /repo apply -R 2>/dev/null; then ok=yes; else ok=no; fi
  if [ $ok = yes ]; then
    ./vcheck check $id --tier quick > work/fixm_${id}_$hash.log 2>&1; rc=$?
    git -C /repo checkout -- .
    first=$(grep -A2 '^VIOLATION' work/fixm_${id}_$hash.log | grep 'case:' | head -1 | cut -c9-150)
  else rc=-; first="(later commits touch the same lines)"; fi
  echo "| $id | $hash | $ok | $rc | $first |" >> $out
  echo "$id $hash reverse=$ok exit=$rc | $first"
done
