#!/usr/bin/env python3
"""Round-5 prompt: one further, subtler change per property, different from the round-1 changes (named, not shown)."""
import json, sys
pid = sys.argv[1]
for l in open('/verif/properties.jsonl'):
    p = json.loads(l)
    if p['id'] == pid:
        break
needs = json.load(open('/verif/seeded/NEEDS.json'))
prev = [v['change'] for k, v in needs.items() if k.startswith(pid)]
wt = f"/tmp/seed/{pid}r5"
print(f"""You are helping test a verification effort for rust-lang/rust-bindgen (a libclang-driven translator from C/C++ headers to Rust FFI bindings). You have your own scratch git worktree of the repository at {wt} (already created; its target/ directory holds a warm debug build cache). Work ONLY inside {wt} (always use absolute paths; never create files elsewhere). Do not read or write anything under /verif or /repo. The sandbox is offline (always pass --offline to cargo). Never use pkill/killall. Ignore the cargo feature `__verif_hooks` and the file bindgen/verif.rs (leave them alone).

Here is a semantic property that rust-bindgen is supposed to satisfy:

TITLE: {p['title']}
STATEMENT: {p['statement']}
QUANTIFIED OVER: {p['quantifier']['text']}
RELEVANT FILES: {', '.join(p['anchors']['files'])}

YOUR TASK: produce TWO further, independent, realistic source changes to rust-bindgen (each a small patch under {wt}/bindgen/ or bindgen-cli/), each of which BREAKS this property while the crate still compiles and the existing test suite still passes exactly as before. They should look like plausible developer mistakes or well-meant refactorings/optimisations, NOT sabotage that ordinary use would expose at once, and they should need something specific to manifest (a particular input shape, an unusual option combination, a particular ordering, a multi-step sequence in one process, a fault at a particular point, or two cooperating sites that each look fine alone). Aim for SUBTLE changes that a checker exploring only very small inputs or only default options could miss. These changes were already made by others and must NOT be repeated (pick different sites / mechanisms):
{chr(10).join('  - ' + c for c in prev)}
Prefer a KIND of mechanism that does not appear in that list, for example: state carried from one generation to the next inside one process; behaviour that depends on the size of the input or on a numeric threshold in the code; combinations of three or more options; conditions of the environment or the file system; target triples other than the host; C++-only constructs; rarely used declarator or attribute syntax; interaction of two features that are each well tested alone.

For EACH change (call them A and B):
1. Make the edit, confirm `cd {wt} && cargo build --offline -p bindgen -p bindgen-cli` succeeds.
2. Run the existing test suite: `cd {wt} && cargo nextest run --workspace --no-fail-fast --tool-config-file pb:/w/lib/nextest.toml --profile pb --test-threads 6 --offline 2>&1 | tail -15`. On the unchanged tree exactly 690 tests pass and exactly 3 fail (header_atomic_constant_h, header_issue_753_h, header_ptr32_has_different_size_h - ignore these 3). If header_issue_2556_h also fails on the unchanged tree, run `touch {wt}/bindgen-tests/build.rs` once. Your change must keep 690 passed and the same 3 failed; otherwise pick a different change.
3. Write a demonstration `{wt}/SEED/<A|B>/demo.sh` (plus any files it needs next to it) that uses `{wt}/target/debug/bindgen` (or a tiny Rust program built against the worktree's library if in-process behaviour is needed) and exits 0 when the property holds for the demonstrated input and non-zero when it is violated. It must FAIL with your change and PASS on the unchanged tree - verify both directions (git stash / checkout, rebuilding each time). clang, rustc and rustfmt are installed.
4. Save the change as `{wt}/SEED/<A|B>/patch.diff` (git diff of the source files only) and write `{wt}/SEED/<A|B>/NOTES.md`: what the change is, why it looks plausible, exactly what is needed for the violation to manifest, and the commands you ran with their results.
5. Revert the source change (`git checkout -- bindgen bindgen-cli`) before the next one, leaving only SEED/ untracked.

Be economical: builds ~1 minute, the suite ~2-4 minutes. Do not modify tests or expectation files. Do not commit. Final reply: for each of A and B one short paragraph: the change, the trigger, verified results (suite tally, demo exit code with/without). If you could only produce one, say so.""")
