#!/bin/bash
# usage: seed_matrix4.sh [seed names...]   Round-4 seeds (and any seed given by name): apply to /repo, run the quick tier of the
# property's own check and of the checks listed in seeded/EXTRA_CHECKS with private build / work / evidence directories, revert;
# writes seeded/<seed>/detect_<CHECK>.json.
cd /verif
sel="$@"
[ -z "$sel" ] && sel=$(ls -d seeded/C??r4-? | xargs -n1 basename)
for s in $sel; do
  d=seeded/$s; id=${s:0:3}
  patch=$d/patch.diff; [ -f $d/patch_rebased.diff ] && patch=$d/patch_rebased.diff
  checks="$id $(grep "^$s " seeded/EXTRA_CHECKS 2>/dev/null | cut -d' ' -f2-)"
  for chk in $checks; do
    if ! git -C /repo diff --quiet; then echo "/repo dirty"; exit 2; fi
    if ! git -C /repo apply /verif/$patch 2>/dev/null; then echo "$s $chk patch-does-not-apply"; python3 -c "import json;json.dump({'seed':'$s','check':'$chk','applies':False},open('$d/detect_$chk.json','w'))"; continue; fi
    mkdir -p work/seedtrial
    VERIF_BUILD=/verif/work/seedbuild VERIF_WORK=/verif/work/seedtrial VERIF_EVIDENCE=/verif/work/seedtrial/evidence ./vcheck check $chk --tier quick > work/seedtrial/m_${s}_$chk.log 2>&1; rc=$?
    git -C /repo checkout -- .
    nv=$(grep -c '^VIOLATION' work/seedtrial/m_${s}_$chk.log)
    first=$(grep -A2 '^VIOLATION' work/seedtrial/m_${s}_$chk.log | grep 'case:' | head -1 | cut -c9-200)
    python3 - "$s" "$chk" "$rc" "$nv" "$first" "$patch" <<'PY'
import json,sys
s,chk,rc,nv,first,patch=sys.argv[1:7]
json.dump({"seed":s,"check":chk,"applies":True,"patch":patch,"exit":int(rc),"violation_lines":int(nv),"first_case":first,"detected":int(rc)==1},open(f"/verif/seeded/{s}/detect_{chk}.json","w"),indent=1)
PY
    echo "$s $chk exit=$rc violations=$nv | $first"
  done
done
