#!/bin/bash
# usage: seed_matrix5.sh [seed names...]   Round-5 seeds on the PRIVATE copy of the repository (/var/tmp/repo2), own check + EXTRA_CHECKS;
# writes seeded/<seed>/detect_<CHECK>.json. /repo itself is not touched, so evidence runs on the unchanged tree can go on meanwhile.
cd /verif
sel="$@"
[ -z "$sel" ] && sel=$(ls -d seeded/C??r5-? | xargs -n1 basename)
R=/var/tmp/repo2
[ -d $R ] || git -C /repo worktree add --detach $R HEAD >/dev/null 2>&1
for s in $sel; do
  d=seeded/$s; id=${s:0:3}
  checks="$id $(grep "^$s " seeded/EXTRA_CHECKS 2>/dev/null | cut -d' ' -f2-)"
  for chk in $checks; do
    git -C $R checkout -q --detach $(git -C /repo rev-parse HEAD) 2>/dev/null; git -C $R checkout -- .
    if ! git -C $R apply /verif/$d/patch.diff 2>/dev/null; then echo "$s $chk patch-does-not-apply"; python3 -c "import json;json.dump({'seed':'$s','check':'$chk','applies':False},open('$d/detect_$chk.json','w'))"; continue; fi
    VERIF_REPO=$R VERIF_BUILD=/verif/work/devbuild VERIF_WORK=/verif/work/dev VERIF_EVIDENCE=/verif/work/dev/evidence ./vcheck check $chk --tier quick > work/dev/m_${s}_$chk.log 2>&1; rc=$?
    git -C $R checkout -- .
    nv=$(grep -c '^VIOLATION' work/dev/m_${s}_$chk.log)
    first=$(grep -A2 '^VIOLATION' work/dev/m_${s}_$chk.log | grep 'case:' | head -1 | cut -c9-200)
    python3 - "$s" "$chk" "$rc" "$nv" "$first" <<'PY'
import json,sys
s,chk,rc,nv,first=sys.argv[1:6]
json.dump({"seed":s,"check":chk,"applies":True,"patch":f"seeded/{s}/patch.diff","exit":int(rc),"violation_lines":int(nv),"first_case":first,"detected":int(rc)==1},open(f"/verif/seeded/{s}/detect_{chk}.json","w"),indent=1)
PY
    echo "$s $chk exit=$rc violations=$nv | $first"
  done
done
