#!/bin/bash
# usage: confirm_seed.sh <ID> <A|B> [base-commit]   (round-2 seeds: <ID>r2, base 09365831)
# Re-creates the scratch worktree the sub-agent used (same path, demos hard-code it), and confirms:
# patch applies, builds, repository suite keeps 690 passed / same 3 failed, demo fails with the change and
# passes without it. Writes /verif/seeded/<ID>-<X>/confirm.json. Removes the worktree afterwards.
id=$1; x=$2; base=${3:-41e2319d}
src=/verif/seeded/_incoming/$id/$x
dst=/verif/seeded/$id-$x
wt=/tmp/seed/$id
[ -d "$src" ] || { echo "no $src"; exit 2; }
mkdir -p $dst && cp -r $src/* $dst/
if [ -d $wt ]; then git -C /repo worktree remove --force $wt; fi
git -C /repo worktree add --detach $wt $base >/dev/null 2>&1 || exit 2
mkdir -p $wt/target && cp -r /repo/target/debug $wt/target/debug
rm -rf $wt/target/debug/build/bindgen-tests-*   # stale generated tests.rs with /repo paths
mkdir -p $wt/SEED && cp -r $src $wt/SEED/$x
cd $wt
applies=false; builds=false; suite=""; demo_with=-1; demo_without=-1
if git apply SEED/$x/patch.diff; then applies=true; fi
if cargo build --offline -p bindgen -p bindgen-cli > $wt/build.log 2>&1; then builds=true; fi
cargo nextest run --workspace --no-fail-fast --tool-config-file pb:/w/lib/nextest.toml --profile pb --test-threads 6 --offline > $wt/suite.log 2>&1
suite=$(grep -E "Summary" $wt/suite.log | sed 's/.*tests run: //')
failed=$(grep -E "^\s+FAIL" $wt/suite.log | awk '{print $NF}' | sort -u | tr '\n' ' ')
bash SEED/$x/demo.sh > $wt/demo_with.log 2>&1; demo_with=$?
git checkout -- bindgen bindgen-cli 2>/dev/null
cargo build --offline -p bindgen -p bindgen-cli > $wt/build2.log 2>&1
bash SEED/$x/demo.sh > $wt/demo_without.log 2>&1; demo_without=$?
python3 - <<PY
import json
json.dump({"seed":"$id-$x","applies":"$applies"=="true","builds":"$builds"=="true","suite":"$suite","suite_failed":"$failed".split(),
 "demo_exit_with_change":$demo_with,"demo_exit_without_change":$demo_without,
 "confirmed": "$applies"=="true" and "$builds"=="true" and "$suite".startswith("690 passed, 3 failed") and $demo_with!=0 and $demo_without==0},
 open("$dst/confirm.json","w"),indent=1)
PY
cat $dst/confirm.json
cd / && git -C /repo worktree remove --force $wt
