#!/bin/bash
# usage: try_seed.sh <patch.diff> <ID> [tier]   apply a seeded change to /repo, run the check, always undo
patch=$1; id=$2; tier=${3:-quick}
cd /repo || exit 2
if ! git diff --quiet; then echo "/repo has uncommitted changes"; exit 2; fi
git apply "$patch" || { echo "patch does not apply"; exit 2; }
cd /verif && ./vcheck check $id --tier $tier > /verif/work/try_seed_$id.log 2>&1; rc=$?
git -C /repo checkout -- . 
grep -c "^VIOLATION" /verif/work/try_seed_$id.log | sed "s/^/violations: /"
grep "^VIOLATION" -A2 /verif/work/try_seed_$id.log | head -12
tail -1 /verif/work/try_seed_$id.log
echo "exit=$rc"
