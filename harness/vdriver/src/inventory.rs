//! syn-based inventory of generated bindings. All relational oracles on the
//! python side are stated over this structure, never over raw text.

use quote::ToTokens;
use serde_json::{json, Value};

fn ts<T: ToTokens>(t: &T) -> String {
    t.to_token_stream().to_string()
}

fn attrs_json(attrs: &[syn::Attribute]) -> (Vec<String>, Vec<String>, Vec<String>, Vec<String>) {
    // (all attrs, derives, repr, docs)
    let mut all = vec![];
    let mut derives = vec![];
    let mut repr = vec![];
    let mut docs = vec![];
    for a in attrs {
        let s = ts(&a.meta);
        if a.path().is_ident("derive") {
            if let Ok(list) = a.parse_args_with(syn::punctuated::Punctuated::<syn::Path, syn::Token![,]>::parse_terminated) {
                for p in list {
                    derives.push(ts(&p).replace(' ', ""));
                }
            }
        } else if a.path().is_ident("repr") {
            if let Ok(list) = a.parse_args_with(syn::punctuated::Punctuated::<syn::Meta, syn::Token![,]>::parse_terminated) {
                for p in list {
                    repr.push(ts(&p).replace(' ', ""));
                }
            }
        } else if a.path().is_ident("doc") {
            docs.push(s.clone());
        }
        all.push(s);
    }
    (all, derives, repr, docs)
}

fn link_name(attrs: &[syn::Attribute]) -> Option<String> {
    for a in attrs {
        if a.path().is_ident("link_name") {
            if let syn::Meta::NameValue(nv) = &a.meta {
                if let syn::Expr::Lit(syn::ExprLit { lit: syn::Lit::Str(s), .. }) = &nv.value {
                    return Some(s.value());
                }
            }
        }
    }
    None
}

fn generics_json(g: &syn::Generics) -> Value {
    let mut v = vec![];
    for p in &g.params {
        match p {
            syn::GenericParam::Type(t) => v.push(t.ident.to_string()),
            syn::GenericParam::Const(c) => v.push(format!("const {}", c.ident)),
            syn::GenericParam::Lifetime(l) => v.push(format!("'{}", l.lifetime.ident)),
        }
    }
    json!(v)
}

fn fields_json(fields: &syn::Fields) -> Value {
    let mut v = vec![];
    for (i, f) in fields.iter().enumerate() {
        let (all, _, _, _) = attrs_json(&f.attrs);
        v.push(json!({
            "name": f.ident.as_ref().map(|i| i.to_string()).unwrap_or_else(|| i.to_string()),
            "ty": ts(&f.ty),
            "vis": ts(&f.vis),
            "attrs": all,
        }));
    }
    json!(v)
}

fn block_stmts(b: &syn::Block) -> Vec<String> {
    b.stmts.iter().map(|s| ts(s)).collect()
}

fn item_json(item: &syn::Item) -> Value {
    match item {
        syn::Item::Struct(s) => {
            let (all, derives, repr, docs) = attrs_json(&s.attrs);
            json!({"kind":"struct","name":s.ident.to_string(),"attrs":all,"derives":derives,"repr":repr,"docs":docs,
                   "vis": ts(&s.vis),
                   "generics":generics_json(&s.generics),"fields":fields_json(&s.fields),
                   "tuple": matches!(s.fields, syn::Fields::Unnamed(_)),
                   "tokens":ts(s)})
        }
        syn::Item::Union(s) => {
            let (all, derives, repr, docs) = attrs_json(&s.attrs);
            let f = syn::Fields::Named(s.fields.clone());
            json!({"kind":"union","name":s.ident.to_string(),"attrs":all,"derives":derives,"repr":repr,"docs":docs,
                   "vis": ts(&s.vis),
                   "generics":generics_json(&s.generics),"fields":fields_json(&f),"tokens":ts(s)})
        }
        syn::Item::Enum(e) => {
            let (all, derives, repr, docs) = attrs_json(&e.attrs);
            let vars: Vec<Value> = e
                .variants
                .iter()
                .map(|v| json!({"name":v.ident.to_string(),"discr":v.discriminant.as_ref().map(|(_,e)| ts(e))}))
                .collect();
            json!({"kind":"enum","name":e.ident.to_string(),"attrs":all,"derives":derives,"repr":repr,"docs":docs,
                   "variants":vars,"tokens":ts(e)})
        }
        syn::Item::Type(t) => {
            let (all, _, _, docs) = attrs_json(&t.attrs);
            json!({"kind":"type","name":t.ident.to_string(),"attrs":all,"docs":docs,"generics":generics_json(&t.generics),
                   "ty":ts(&t.ty),"tokens":ts(t)})
        }
        syn::Item::Const(c) => {
            let (all, _, _, docs) = attrs_json(&c.attrs);
            let name = c.ident.to_string();
            if name == "_" {
                let stmts = match &*c.expr {
                    syn::Expr::Block(b) => block_stmts(&b.block),
                    e => vec![ts(e)],
                };
                json!({"kind":"assert_block","name":"_","attrs":all,"stmts":stmts,"tokens":ts(c)})
            } else {
                json!({"kind":"const","name":name,"attrs":all,"docs":docs,"ty":ts(&c.ty),"expr":ts(&c.expr),"tokens":ts(c)})
            }
        }
        syn::Item::Static(s) => {
            let (all, _, _, _) = attrs_json(&s.attrs);
            json!({"kind":"static","name":s.ident.to_string(),"attrs":all,"ty":ts(&s.ty),"tokens":ts(s)})
        }
        syn::Item::Fn(f) => {
            let (all, _, _, _) = attrs_json(&f.attrs);
            let is_test = f.attrs.iter().any(|a| a.path().is_ident("test"));
            let mut v = json!({"kind": if is_test {"test_fn"} else {"fn"},"name":f.sig.ident.to_string(),"attrs":all,
                   "sig":ts(&f.sig),"tokens":ts(f)});
            if is_test {
                v["stmts"] = json!(block_stmts(&f.block));
            }
            v
        }
        syn::Item::Impl(i) => {
            let (all, _, _, _) = attrs_json(&i.attrs);
            let items: Vec<Value> = i
                .items
                .iter()
                .map(|it| match it {
                    syn::ImplItem::Fn(f) => json!({"kind":"fn","name":f.sig.ident.to_string(),"sig":ts(&f.sig),
                        "vis":ts(&f.vis),"body":ts(&f.block)}),
                    syn::ImplItem::Const(c) => json!({"kind":"const","name":c.ident.to_string(),"ty":ts(&c.ty),"expr":ts(&c.expr)}),
                    syn::ImplItem::Type(t) => json!({"kind":"type","name":t.ident.to_string(),"ty":ts(&t.ty)}),
                    other => json!({"kind":"other","tokens":ts(other)}),
                })
                .collect();
            json!({"kind":"impl","name":Value::Null,"attrs":all,
                   "trait": i.trait_.as_ref().map(|(_,p,_)| ts(p).replace(' ', "")),
                   "self_ty": ts(&i.self_ty).replace(' ', ""),
                   "generics":generics_json(&i.generics),
                   "where": i.generics.where_clause.as_ref().map(|w| ts(w)),
                   "items":items,"tokens":ts(i)})
        }
        syn::Item::Mod(m) => {
            let (all, _, _, _) = attrs_json(&m.attrs);
            let items: Vec<Value> = m.content.as_ref().map(|(_, its)| its.iter().map(item_json).collect()).unwrap_or_default();
            json!({"kind":"mod","name":m.ident.to_string(),"attrs":all,"items":items})
        }
        syn::Item::ForeignMod(fm) => {
            let (all, _, _, _) = attrs_json(&fm.attrs);
            let items: Vec<Value> = fm
                .items
                .iter()
                .map(|it| match it {
                    syn::ForeignItem::Fn(f) => {
                        let (a, _, _, docs) = attrs_json(&f.attrs);
                        json!({"kind":"fn","name":f.sig.ident.to_string(),"attrs":a,"docs":docs,"link_name":link_name(&f.attrs),
                               "sig":ts(&f.sig),"vis":ts(&f.vis),"tokens":ts(f)})
                    }
                    syn::ForeignItem::Static(s) => {
                        let (a, _, _, docs) = attrs_json(&s.attrs);
                        json!({"kind":"static","name":s.ident.to_string(),"attrs":a,"docs":docs,"link_name":link_name(&s.attrs),
                               "mutable": matches!(s.mutability, syn::StaticMutability::Mut(_)),
                               "ty":ts(&s.ty),"tokens":ts(s)})
                    }
                    other => json!({"kind":"other","tokens":ts(other)}),
                })
                .collect();
            json!({"kind":"foreign_mod","name":Value::Null,"attrs":all,
                   "abi": fm.abi.name.as_ref().map(|n| n.value()),
                   "unsafety": fm.unsafety.is_some(),
                   "items":items,"tokens":ts(fm)})
        }
        syn::Item::Use(u) => {
            let (all, _, _, _) = attrs_json(&u.attrs);
            json!({"kind":"use","name":Value::Null,"attrs":all,"tokens":ts(u)})
        }
        syn::Item::Macro(m) => json!({"kind":"macro","name":Value::Null,"tokens":ts(m)}),
        other => json!({"kind":"other","name":Value::Null,"tokens":ts(other)}),
    }
}

pub fn inventory_of_file(file: &syn::File) -> Value {
    let (all, _, _, _) = attrs_json(&file.attrs);
    json!({"attrs": all, "items": file.items.iter().map(item_json).collect::<Vec<_>>()})
}

pub fn inventory_of_source(src: &str) -> Result<Value, String> {
    let file = syn::parse_file(src).map_err(|e| format!("syn parse error: {e}"))?;
    Ok(inventory_of_file(&file))
}

/// Token sequence (flat, delimiters expanded) of a source text; used by C15.
pub fn flat_tokens(src: &str) -> Result<Vec<String>, String> {
    let ts: proc_macro2::TokenStream = src.parse().map_err(|e| format!("lex error: {e}"))?;
    let mut out = vec![];
    fn walk(ts: proc_macro2::TokenStream, out: &mut Vec<String>) {
        for t in ts {
            match t {
                proc_macro2::TokenTree::Group(g) => {
                    let (o, c) = match g.delimiter() {
                        proc_macro2::Delimiter::Parenthesis => ("(", ")"),
                        proc_macro2::Delimiter::Brace => ("{", "}"),
                        proc_macro2::Delimiter::Bracket => ("[", "]"),
                        proc_macro2::Delimiter::None => ("", ""),
                    };
                    out.push(o.to_string());
                    walk(g.stream(), out);
                    out.push(c.to_string());
                }
                proc_macro2::TokenTree::Ident(i) => out.push(i.to_string()),
                proc_macro2::TokenTree::Punct(p) => out.push(p.as_char().to_string()),
                proc_macro2::TokenTree::Literal(l) => out.push(l.to_string()),
            }
        }
    }
    walk(ts, &mut out);
    // formatters add or drop a trailing comma before a closing delimiter when they re-wrap a list;
    // that is layout, not content: normalise it away on both sides
    let mut norm: Vec<String> = Vec::with_capacity(out.len());
    for t in out {
        if (t == ")" || t == "}" || t == "]" || t == ">") && norm.last().map(|l| l == ",").unwrap_or(false) {
            norm.pop();
        }
        norm.push(t);
    }
    Ok(norm)
}
