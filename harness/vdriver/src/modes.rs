//! Job modes executed inside a worker process. Each returns a JSON object.

use crate::inventory;
use serde_json::{json, Value};
use std::panic::{catch_unwind, AssertUnwindSafe};
use std::sync::{Arc, Mutex};

pub fn extra_subcommand(name: &str, _args: &[String]) -> Option<i32> {
    match name {
        "builder-methods" => {
            use crate::builder_ops::*;
            println!("{}", json!({"bool": BOOL_METHODS, "noarg": NOARG_METHODS, "str": STR_METHODS,
                                  "parsed": PARSED_METHODS, "special": SPECIAL_METHODS}));
            Some(0)
        }
        "cargo-cb" => {
            // generate with bindgen::CargoCallbacks installed; its cargo: lines go to stdout
            let mut argv = vec!["bindgen".to_string()];
            argv.extend(_args.iter().cloned());
            let (b, _, _) = bindgen::builder_from_flags(argv.into_iter()).expect("flags");
            let b = b.parse_callbacks(Box::new(bindgen::CargoCallbacks::new()));
            match b.generate() {
                Ok(bindings) => {
                    println!("=====BINDINGS=====");
                    println!("{}", bindings);
                    Some(0)
                }
                Err(e) => {
                    eprintln!("{e}");
                    Some(1)
                }
            }
        }
        _ => None,
    }
}

fn strs(v: Option<&Value>) -> Vec<String> {
    v.and_then(|a| a.as_array())
        .map(|a| a.iter().filter_map(|s| s.as_str().map(|s| s.to_string())).collect())
        .unwrap_or_default()
}

#[derive(Debug)]
pub struct LogCallbacks {
    pub log: Arc<Mutex<Vec<String>>>,
    pub rename: bool,
    pub vouch: bool,
    /// item_name strips a `_s` / `_t` / `_e` / `_u` suffix: a typedef and its tag are mapped onto ONE name
    pub strip: bool,
}

impl bindgen::callbacks::ParseCallbacks for LogCallbacks {
    fn header_file(&self, filename: &str) {
        self.log.lock().unwrap().push(format!("header_file {filename}"));
    }
    fn include_file(&self, filename: &str) {
        self.log.lock().unwrap().push(format!("include_file {filename}"));
    }
    fn read_env_var(&self, key: &str) {
        self.log.lock().unwrap().push(format!("read_env_var {key}"));
    }
    fn item_name(&self, info: bindgen::callbacks::ItemInfo) -> Option<String> {
        if self.rename {
            Some(format!("rn_{}", info.name))
        } else if self.strip {
            for suf in ["_s", "_t", "_e", "_u"] {
                if let Some(base) = info.name.strip_suffix(suf) {
                    return Some(base.to_string());
                }
            }
            None
        } else {
            None
        }
    }
    fn blocklisted_type_implements_trait(
        &self,
        _name: &str,
        _derive_trait: bindgen::callbacks::DeriveTrait,
    ) -> Option<bindgen::callbacks::ImplementsTrait> {
        if self.vouch {
            Some(bindgen::callbacks::ImplementsTrait::Yes)
        } else {
            None
        }
    }
    fn new_item_found(
        &self,
        id: bindgen::callbacks::DiscoveredItemId,
        item: bindgen::callbacks::DiscoveredItem,
        _loc: Option<&bindgen::callbacks::SourceLocation>,
    ) {
        self.log.lock().unwrap().push(format!("new_item_found {id:?} {item:?}"));
    }
}

pub fn err_kind(e: &bindgen::BindgenError) -> &'static str {
    match e {
        bindgen::BindgenError::FolderAsHeader(_) => "FolderAsHeader",
        bindgen::BindgenError::InsufficientPermissions(_) => "InsufficientPermissions",
        bindgen::BindgenError::NotExist(_) => "NotExist",
        bindgen::BindgenError::ClangDiagnostic(_) => "ClangDiagnostic",
        bindgen::BindgenError::Codegen(_) => "Codegen",
        bindgen::BindgenError::UnsupportedEdition(..) => "UnsupportedEdition",
        _ => "Other",
    }
}

/// Build a Builder from a job: `args` are CLI arguments (without argv[0]);
/// optional `header_contents`: [[name, contents], ...]; optional `callbacks`:
/// {"log":bool,"rename":bool,"vouch":bool}; optional `raw_lines`.
pub fn builder_of_job(job: &Value) -> Result<(bindgen::Builder, Arc<Mutex<Vec<String>>>), String> {
    let mut b = if job.get("args").is_some() {
        let mut args = vec!["bindgen".to_string()];
        args.extend(strs(job.get("args")));
        bindgen::builder_from_flags(args.into_iter()).map_err(|e| format!("flags: {e}"))?.0
    } else {
        bindgen::builder()
    };
    if let Some(ops) = job.get("ops").and_then(|o| o.as_array()) {
        for op in ops {
            let arr = op.as_array().ok_or("op must be an array")?;
            let name = arr[0].as_str().ok_or("op name")?;
            b = crate::builder_ops::apply_op(b, name, &arr[1..])?;
        }
    }
    for a in strs(job.get("clang_args")) {
        b = b.clang_arg(a);
    }
    if let Some(hc) = job.get("header_contents").and_then(|v| v.as_array()) {
        for pair in hc {
            let name = pair[0].as_str().unwrap_or("in.h");
            let contents = pair[1].as_str().unwrap_or("");
            b = b.header_contents(name, contents);
        }
    }
    for l in strs(job.get("raw_lines")) {
        b = b.raw_line(l);
    }
    let log = Arc::new(Mutex::new(vec![]));
    if let Some(cb) = job.get("callbacks") {
        let g = |k: &str| cb.get(k).and_then(|v| v.as_bool()).unwrap_or(false);
        b = b.parse_callbacks(Box::new(LogCallbacks { log: log.clone(), rename: g("rename"), vouch: g("vouch"), strip: g("strip") }));
        if g("cargo") {
            b = b.parse_callbacks(Box::new(bindgen::CargoCallbacks::new()));
        }
    }
    Ok((b, log))
}

pub fn take_panic() -> Option<String> {
    crate::LAST_PANIC.with(|p| p.borrow_mut().take())
}

fn gen_job(job: &Value) -> Value {
    let want_inv = job.get("inventory").and_then(|v| v.as_bool()).unwrap_or(false);
    let want_text = job.get("text").and_then(|v| v.as_bool()).unwrap_or(true);
    let r = catch_unwind(AssertUnwindSafe(|| {
        let (b, log) = match builder_of_job(job) {
            Ok(x) => x,
            Err(e) => return json!({"status":"badflags","err":e}),
        };
        let fix = job.get("fixpoint").and_then(|v| v.as_bool()).unwrap_or(false);
        if fix {
            bindgen::verif::fixpoint_begin();
        }
        let res = b.generate();
        let fix_report = if fix {
            let r = bindgen::verif::fixpoint_end();
            let runs: Vec<Value> = r
                .runs
                .iter()
                .map(|a| json!({"label": a.label, "domain": a.domain, "constrain_calls": a.constrain_calls,
                                "hook_constrain_calls": a.hook_constrain_calls, "facts": a.facts,
                                "unstable": a.unstable.iter().collect::<Vec<_>>(),
                                "not_least": a.not_least.iter().collect::<Vec<_>>(),
                                "reference_diverged": a.reference_diverged}))
                .collect();
            Some(json!({"runs": runs, "events": r.events, "consultations": r.consultations}))
        } else {
            None
        };
        let res = res.map(|b| (b, fix_report.clone())).map_err(|e| (e, fix_report));
        match res {
            Ok((bindings, fix_report)) => {
                let mut buf = vec![];
                if let Err(e) = bindings.write(&mut buf) {
                    return json!({"status":"write_err","err":e.to_string()});
                }
                let text = String::from_utf8_lossy(&buf).to_string();
                let mut out = json!({"status":"ok"});
                if want_inv {
                    match inventory::inventory_of_source(&text) {
                        Ok(v) => out["inventory"] = v,
                        Err(e) => out["inventory_err"] = json!(e),
                    }
                }
                if want_text {
                    out["text"] = json!(text);
                }
                out["cb_log"] = json!(*log.lock().unwrap());
                if let Some(f) = fix_report {
                    out["fixpoint"] = f;
                }
                out
            }
            Err((e, _)) => json!({"status":"err","err_kind":err_kind(&e),"err":e.to_string(),
                             "cb_log": *log.lock().unwrap()}),
        }
    }));
    match r {
        Ok(v) => v,
        Err(_) => json!({"status":"panic","panic":take_panic()}),
    }
}

pub fn run_job(job: &Value) -> Value {
    let mode = job.get("mode").and_then(|m| m.as_str()).unwrap_or("gen");
    match mode {
        "gen" | "gen_ops" => gen_job(job),
        "inventory" => {
            let src = job.get("src").and_then(|s| s.as_str()).unwrap_or("");
            match inventory::inventory_of_source(src) {
                Ok(v) => json!({"status":"ok","inventory":v}),
                Err(e) => json!({"status":"err","err":e}),
            }
        }
        "tokens" => {
            let src = job.get("src").and_then(|s| s.as_str()).unwrap_or("");
            match inventory::flat_tokens(src) {
                Ok(v) => json!({"status":"ok","tokens":v}),
                Err(e) => json!({"status":"err","err":e}),
            }
        }
        other => run_job_ext(other, job).unwrap_or_else(|| json!({"status":"badjob","err":format!("unknown mode {other}")})),
    }
}

// ---------------------------------------------------------------- C13 round trips

fn build_from_ops(ops: &[Value]) -> Result<bindgen::Builder, String> {
    let mut b = bindgen::builder();
    for op in ops {
        let arr = op.as_array().ok_or("op must be an array")?;
        let name = arr[0].as_str().ok_or("op name")?;
        b = crate::builder_ops::apply_op(b, name, &arr[1..])?;
    }
    Ok(b)
}

fn gen_text(b: bindgen::Builder) -> Value {
    match catch_unwind(AssertUnwindSafe(|| b.generate())) {
        Ok(Ok(bindings)) => {
            let mut buf = vec![];
            match bindings.write(&mut buf) {
                Ok(()) => json!({"status":"ok","text":String::from_utf8_lossy(&buf)}),
                Err(e) => json!({"status":"write_err","err":e.to_string()}),
            }
        }
        Ok(Err(e)) => json!({"status":"err","err_kind":err_kind(&e),"err":e.to_string()}),
        Err(_) => json!({"status":"panic","panic":take_panic()}),
    }
}

/// ops -> builder b1; flags1 = b1.command_line_flags(); b2 = builder_from_flags(flags1);
/// flags2 = b2.command_line_flags(); both generate.
fn roundtrip_job(job: &Value) -> Value {
    let ops = job.get("ops").and_then(|o| o.as_array()).cloned().unwrap_or_default();
    let generate = job.get("generate").and_then(|g| g.as_bool()).unwrap_or(true);
    let b1 = match build_from_ops(&ops) {
        Ok(b) => b,
        Err(e) => return json!({"status":"badjob","err":e}),
    };
    let flags1 = b1.command_line_flags();
    let mut argv = vec!["bindgen".to_string()];
    argv.extend(flags1.iter().cloned());
    // The library-side builder generates BEFORE the flags are parsed: parsing must not have side effects (created directories,
    // environment) that the first generation could profit from.
    let out1 = if generate { Some(gen_text(b1)) } else { None };
    // NB: builder_from_flags exits the process on a clap error: the pool reports that as a crash.
    let b2 = match bindgen::builder_from_flags(argv.into_iter()) {
        Ok((b, _, _)) => b,
        Err(e) => return json!({"status":"reparse_err","flags1":flags1,"err":e.to_string()}),
    };
    let flags2 = b2.command_line_flags();
    let mut out = json!({"status":"ok","flags1":flags1,"flags2":flags2});
    if let Some(o1) = out1 {
        out["out1"] = o1;
        out["out2"] = gen_text(b2);
    }
    out
}

/// builder_from_flags(flags) vs builder built by ops: flag lists and generated text.
fn flagcmp_job(job: &Value) -> Value {
    let ops = job.get("ops").and_then(|o| o.as_array()).cloned().unwrap_or_default();
    let mut argv = vec!["bindgen".to_string()];
    argv.extend(strs(job.get("flags")));
    let bm = match build_from_ops(&ops) {
        Ok(b) => b,
        Err(e) => return json!({"status":"badjob","err":e}),
    };
    let fm = bm.command_line_flags();
    let out_methods = gen_text(bm);   // before the CLI parser runs (see roundtrip_job)
    let bf = match bindgen::builder_from_flags(argv.into_iter()) {
        Ok((b, _, _)) => b,
        Err(e) => return json!({"status":"flags_err","err":e.to_string()}),
    };
    let ff = bf.command_line_flags();
    json!({"status":"ok","flags_from_flags":ff,"flags_from_methods":fm,"out_flags":gen_text(bf),"out_methods":out_methods})
}

pub fn run_job_ext(mode: &str, job: &Value) -> Option<Value> {
    Some(match mode {
        "roundtrip" => roundtrip_job(job),
        "flagcmp" => flagcmp_job(job),
        "fmtcheck" => fmtcheck_job(job),
        "history" => crate::sched::history_job(job),
        "interleave" => crate::sched::interleave_job(job),
        "freerun" => crate::sched::freerun_job(job),
        "postcheck" => crate::post::postcheck_job(job),
        "pipecmp" => crate::post::pipeline_compare(
            job.get("base").and_then(|s| s.as_str()).unwrap_or(""),
            job.get("processed").and_then(|s| s.as_str()).unwrap_or(""),
            job.get("merge").and_then(|s| s.as_bool()).unwrap_or(false),
        ),
        _ => return None,
    })
}

// ---------------------------------------------------------------- C15 formatter faults

fn write_to_string(b: &bindgen::Bindings) -> Result<Vec<u8>, String> {
    let mut buf = vec![];
    b.write(&mut buf).map_err(|e| e.to_string())?;
    Ok(buf)
}

/// job: args (CLI args incl. header), raw_lines, formatter: "rustfmt"|"prettyplease"|"none",
/// rustfmt_path (optional), rustfmt_config (optional).
/// Generates twice (Formatter::None reference and the formatter under test) and compares.
fn fmtcheck_job(job: &Value) -> Value {
    let r = catch_unwind(AssertUnwindSafe(|| {
        let (b0, _) = match builder_of_job(job) {
            Ok(x) => x,
            Err(e) => return json!({"status":"badflags","err":e}),
        };
        let raw_lines = strs(job.get("raw_lines"));
        let reference = match b0.clone().formatter(bindgen::Formatter::None).generate() {
            Ok(b) => b,
            Err(e) => return json!({"status":"gen_err","err":e.to_string()}),
        };
        let none_bytes = match write_to_string(&reference) {
            Ok(t) => t,
            Err(e) => return json!({"status":"ref_write_err","err":e}),
        };
        let none_text = String::from_utf8_lossy(&none_bytes).to_string();
        let fmt = job.get("formatter").and_then(|f| f.as_str()).unwrap_or("rustfmt");
        let mut b = b0.formatter(fmt.parse::<bindgen::Formatter>().unwrap());
        if let Some(p) = job.get("rustfmt_path").and_then(|p| p.as_str()) {
            b = b.with_rustfmt(p);
        }
        if let Some(p) = job.get("rustfmt_config").and_then(|p| p.as_str()) {
            b = b.rustfmt_configuration_file(Some(std::path::PathBuf::from(p)));
        }
        let bindings = match b.generate() {
            Ok(b) => b,
            Err(e) => return json!({"status":"gen_err","err":e.to_string()}),
        };
        let t0 = std::time::Instant::now();
        let out = write_to_string(&bindings);
        let write_ms = t0.elapsed().as_millis() as u64;
        let bytes = match out {
            Ok(b) => b,
            Err(e) => return json!({"status":"ok","write":"err","write_err":e,"write_ms":write_ms}),
        };
        let valid_utf8 = std::str::from_utf8(&bytes).is_ok();
        let text = String::from_utf8_lossy(&bytes).to_string();
        // preamble of the reference: header comment + raw lines (+ blank line)
        let mut pre_end = 0usize;
        if let Some(i) = none_text.find("*/\n\n") {
            if none_text.starts_with("/* automatically generated by rust-bindgen") {
                pre_end = i + 4;
            }
        }
        for l in &raw_lines {
            if none_text[pre_end..].starts_with(&format!("{l}\n")) {
                pre_end += l.len() + 1;
            }
        }
        if !raw_lines.is_empty() && none_text[pre_end..].starts_with('\n') {
            pre_end += 1;
        }
        let preamble = &none_text[..pre_end];
        let preamble_ok = text.starts_with(preamble);
        let header_count = text.matches("automatically generated by rust-bindgen").count();
        let raw_counts: Vec<usize> = raw_lines.iter().map(|l| text.matches(l.as_str()).count()).collect();
        let body = if preamble_ok { &text[pre_end..] } else { &text[..] };
        let ta = inventory::flat_tokens(&none_text[pre_end..]);
        let tb = inventory::flat_tokens(body);
        let (tokens_equal, first_diff) = match (&ta, &tb) {
            (Ok(a), Ok(b)) => {
                if a == b {
                    (true, Value::Null)
                } else {
                    let i = a.iter().zip(b.iter()).position(|(x, y)| x != y).unwrap_or(a.len().min(b.len()));
                    (false, json!({"index": i, "ref": a.get(i), "got": b.get(i), "ref_len": a.len(), "got_len": b.len()}))
                }
            }
            (_, Err(e)) => (false, json!({"lex_error": e})),
            (Err(e), _) => (false, json!({"ref_lex_error": e})),
        };
        json!({"status":"ok","write":"ok","write_ms":write_ms,"valid_utf8":valid_utf8,"preamble_ok":preamble_ok,
               "header_count":header_count,"raw_counts":raw_counts,"tokens_equal":tokens_equal,"first_diff":first_diff,
               "identical_text": text == none_text, "len": text.len(), "ref_len": none_text.len()})
    }));
    match r {
        Ok(v) => v,
        Err(_) => json!({"status":"panic","panic":take_panic()}),
    }
}
