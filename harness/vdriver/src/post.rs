//! C18 pass-level explorer: every item sequence up to a bound is pushed through
//! the real post-processing pipeline (`bindgen::verif::postprocess`, i.e. the
//! crate's own `postprocessing()` with its `PASSES`), and the property's
//! invariants are evaluated on every result.

use quote::ToTokens;
use serde_json::{json, Value};
use std::collections::BTreeMap;

#[derive(Clone, Debug, PartialEq, Eq, PartialOrd, Ord)]
enum Canon {
    /// (kind, tokens)
    Plain(String, String),
    /// key = (attrs, abi, unsafety); items = (kind, tokens)
    Foreign((String, String, bool), Vec<(String, String)>),
    Mod(String, Vec<Canon>),
}

fn kind_of(item: &syn::Item) -> &'static str {
    match item {
        syn::Item::Const(_) => "const",
        syn::Item::Enum(_) => "enum",
        syn::Item::ExternCrate(_) => "extern_crate",
        syn::Item::Fn(_) => "fn",
        syn::Item::ForeignMod(_) => "foreign_mod",
        syn::Item::Impl(_) => "impl",
        syn::Item::Macro(_) => "macro",
        syn::Item::Mod(_) => "mod",
        syn::Item::Static(_) => "static",
        syn::Item::Struct(_) => "struct",
        syn::Item::Trait(_) => "trait",
        syn::Item::TraitAlias(_) => "trait_alias",
        syn::Item::Type(_) => "type",
        syn::Item::Union(_) => "union",
        syn::Item::Use(_) => "use",
        _ => "other",
    }
}

fn canon_items(items: &[syn::Item]) -> Vec<Canon> {
    items
        .iter()
        .map(|it| match it {
            syn::Item::ForeignMod(fm) => {
                let attrs = fm.attrs.iter().map(|a| a.to_token_stream().to_string()).collect::<Vec<_>>().join(" ");
                let abi = fm.abi.name.as_ref().map(|n| n.value()).unwrap_or_default();
                let items = fm
                    .items
                    .iter()
                    .map(|fi| {
                        let k = match fi {
                            syn::ForeignItem::Fn(_) => "fn",
                            syn::ForeignItem::Static(_) => "static",
                            _ => "other",
                        };
                        (k.to_string(), fi.to_token_stream().to_string())
                    })
                    .collect();
                Canon::Foreign((attrs, abi, fm.unsafety.is_some()), items)
            }
            syn::Item::Mod(m) => {
                let inner = m.content.as_ref().map(|(_, its)| canon_items(its)).unwrap_or_default();
                // attributes and visibility of the module itself are part of its identity
                let mut head = m.clone();
                head.content = None;
                Canon::Mod(head.to_token_stream().to_string(), inner)
            }
            other => Canon::Plain(kind_of(other).to_string(), other.to_token_stream().to_string()),
        })
        .collect()
}

fn canon_of_stream(ts: proc_macro2::TokenStream) -> Result<Vec<Canon>, String> {
    let f: syn::File = syn::parse2(ts).map_err(|e| format!("output does not parse: {e}"))?;
    Ok(canon_items(&f.items))
}

/// Property invariants between the unprocessed module `a` and the processed module `b`.
fn check_module(a: &[Canon], b: &[Canon], merge: bool, path: &str, errs: &mut Vec<String>) {
    // plain items: same multiset; same relative order within a kind
    let plain = |v: &[Canon]| -> BTreeMap<String, Vec<String>> {
        let mut m: BTreeMap<String, Vec<String>> = BTreeMap::new();
        for c in v {
            match c {
                Canon::Plain(k, t) => m.entry(k.clone()).or_default().push(t.clone()),
                Canon::Mod(h, _) => m.entry("mod".into()).or_default().push(h.clone()),
                _ => {}
            }
        }
        m
    };
    let (pa, pb) = (plain(a), plain(b));
    if pa != pb {
        let mut sa = pa.clone();
        let mut sb = pb.clone();
        for v in sa.values_mut() {
            v.sort();
        }
        for v in sb.values_mut() {
            v.sort();
        }
        if sa != sb {
            errs.push(format!("{path}: multiset of non-foreign items changed"));
        } else {
            errs.push(format!("{path}: relative order of same-kind items changed"));
        }
    }
    // foreign items: per (block key, item kind) the same sequence of items
    let foreign = |v: &[Canon]| -> BTreeMap<((String, String, bool), String), Vec<String>> {
        let mut m: BTreeMap<_, Vec<String>> = BTreeMap::new();
        for c in v {
            if let Canon::Foreign(key, items) = c {
                for (k, t) in items {
                    m.entry((key.clone(), k.clone())).or_default().push(t.clone());
                }
            }
        }
        m
    };
    let (fa, fb) = (foreign(a), foreign(b));
    if fa != fb {
        let flat = |m: &BTreeMap<((String, String, bool), String), Vec<String>>| {
            let mut v: Vec<String> = m.values().flatten().cloned().collect();
            v.sort();
            v
        };
        if flat(&fa) != flat(&fb) {
            errs.push(format!("{path}: multiset of foreign items changed"));
        } else {
            let mut sa = fa.clone();
            let mut sb = fb.clone();
            for v in sa.values_mut() {
                v.sort();
            }
            for v in sb.values_mut() {
                v.sort();
            }
            if sa != sb {
                errs.push(format!("{path}: a foreign item moved to a block with different ABI / attributes / unsafety"));
            } else {
                errs.push(format!("{path}: relative order of foreign items of one block kind changed"));
            }
        }
    }
    // without merging, the blocks themselves must be the same blocks
    if !merge {
        let blocks = |v: &[Canon]| -> Vec<Canon> { v.iter().filter(|c| matches!(c, Canon::Foreign(..))).cloned().collect() };
        if blocks(a) != blocks(b) {
            errs.push(format!("{path}: extern blocks regrouped although merging is off"));
        }
    }
    // nested modules, matched by header
    let mods = |v: &[Canon]| -> BTreeMap<String, Vec<Canon>> {
        v.iter()
            .filter_map(|c| if let Canon::Mod(h, inner) = c { Some((h.clone(), inner.clone())) } else { None })
            .collect()
    };
    let (ma, mb) = (mods(a), mods(b));
    for (h, ia) in &ma {
        if let Some(ib) = mb.get(h) {
            check_module(ia, ib, merge, &format!("{path}::{h}"), errs);
        }
    }
}

/// Boring reference model of the two passes on the canonical form (diagnostic + differential).
fn reference(items: &[Canon], merge: bool, sort: bool) -> Vec<Canon> {
    let mut v: Vec<Canon> = items
        .iter()
        .map(|c| match c {
            Canon::Mod(h, inner) => Canon::Mod(h.clone(), reference(inner, merge, sort)),
            o => o.clone(),
        })
        .collect();
    if merge {
        let mut plain = vec![];
        let mut groups: Vec<Canon> = vec![];
        for c in v {
            if let Canon::Foreign(key, its) = c {
                // the implementation keys on (attrs, abi); unsafety is uniform per stream
                if let Some(Canon::Foreign(_, g)) = groups.iter_mut().find(|g| matches!(g, Canon::Foreign(k, _) if k.0 == key.0 && k.1 == key.1)) {
                    g.extend(its);
                } else {
                    groups.push(Canon::Foreign(key, its));
                }
            } else {
                plain.push(c);
            }
        }
        plain.extend(groups);
        v = plain;
    }
    if sort {
        let rank = |c: &Canon| -> u32 {
            match c {
                Canon::Plain(k, _) => match k.as_str() {
                    "type" => 0,
                    "struct" => 1,
                    "const" => 2,
                    "fn" => 3,
                    "enum" => 4,
                    "union" => 5,
                    "static" => 6,
                    "trait" => 7,
                    "trait_alias" => 8,
                    "impl" => 9,
                    "use" => 11,
                    "extern_crate" => 13,
                    "macro" => 15,
                    _ => 18,
                },
                Canon::Mod(..) => 10,
                Canon::Foreign(..) => 14,
            }
        };
        v.sort_by_key(rank); // stable
    }
    v
}

fn instantiate(template: &str, i: usize, unsafe_extern: bool, nested: &str) -> String {
    let s = template.replace("{i}", &i.to_string()).replace("{nested}", nested);
    if unsafe_extern {
        s.replace("extern \"", "unsafe extern \"")
    } else {
        s
    }
}

struct Stats {
    sequences: u64,
    applications: u64,
    violations: Vec<Value>,
    ref_mismatch: u64,
    distinct_outputs: std::collections::HashSet<u64>,
    changed_by_pass: u64,
}

fn hash_str(s: &str) -> u64 {
    use std::hash::{Hash, Hasher};
    let mut h = std::collections::hash_map::DefaultHasher::new();
    s.hash(&mut h);
    h.finish()
}

fn run_sequence(srcs: &[String], label: &Value, st: &mut Stats) {
    st.sequences += 1;
    let items: Vec<proc_macro2::TokenStream> = match srcs.iter().map(|s| s.parse::<proc_macro2::TokenStream>()).collect() {
        Ok(v) => v,
        Err(e) => {
            st.violations.push(json!({"seq":label,"why":format!("harness: atom does not lex: {e}"),"machinery":true}));
            return;
        }
    };
    let base = match canon_of_stream(bindgen::verif::postprocess(items.clone(), false, false)) {
        Ok(c) => c,
        Err(e) => {
            st.violations.push(json!({"seq":label,"why":format!("harness: {e}"),"machinery":true}));
            return;
        }
    };
    for (merge, sort) in [(false, false), (true, false), (false, true), (true, true)] {
        st.applications += 1;
        let out_ts = match std::panic::catch_unwind(std::panic::AssertUnwindSafe(|| bindgen::verif::postprocess(items.clone(), merge, sort))) {
            Ok(t) => t,
            Err(_) => {
                st.violations.push(json!({"seq":label,"merge":merge,"sort":sort,"why":"pass panicked"}));
                continue;
            }
        };
        let out_str = out_ts.to_string();
        st.distinct_outputs.insert(hash_str(&out_str));
        let out = match canon_of_stream(out_ts.clone()) {
            Ok(c) => c,
            Err(e) => {
                st.violations.push(json!({"seq":label,"merge":merge,"sort":sort,"why":e}));
                continue;
            }
        };
        if out != base {
            st.changed_by_pass += 1;
        }
        let mut errs = vec![];
        check_module(&base, &out, merge, "root", &mut errs);
        // idempotence: the passes applied to their own output change nothing
        st.applications += 1;
        let again = bindgen::verif::postprocess(vec![out_ts], merge, sort).to_string();
        if again != out_str {
            errs.push("not idempotent: applying the passes to processed bindings changed them".to_string());
        }
        if reference(&base, merge, sort) != out {
            st.ref_mismatch += 1;
            if errs.is_empty() && st.violations.len() < 20 {
                // differential alarm: disagreement with the reference model that the invariants did not explain
                errs.push("differs from the reference model (group extern blocks by (attrs, abi) in order of first occurrence after the other items; stable sort by kind)".to_string());
            }
        }
        if !errs.is_empty() && st.violations.len() < 200 {
            st.violations.push(json!({"seq":label,"merge":merge,"sort":sort,"why":errs.join("; "),"items":srcs}));
        }
    }
}

/// job: {"atoms":[templates], "nested":[[atom idx,...],...], "first":[idx,...] (first-atom slice for
/// parallelism), "max_len":L, "unsafe_extern":bool, "explicit":[[idx,...],...] (extra sequences)}
pub fn postcheck_job(job: &Value) -> Value {
    let atoms: Vec<String> = job["atoms"].as_array().unwrap().iter().map(|a| a.as_str().unwrap().to_string()).collect();
    let nested: Vec<Vec<usize>> = job["nested"]
        .as_array()
        .map(|a| a.iter().map(|s| s.as_array().unwrap().iter().map(|x| x.as_u64().unwrap() as usize).collect()).collect())
        .unwrap_or_default();
    let first: Vec<usize> = job["first"].as_array().map(|a| a.iter().map(|x| x.as_u64().unwrap() as usize).collect()).unwrap_or_default();
    let max_len = job["max_len"].as_u64().unwrap_or(0) as usize;
    let unsafe_extern = job["unsafe_extern"].as_bool().unwrap_or(false);
    let mut st = Stats { sequences: 0, applications: 0, violations: vec![], ref_mismatch: 0, distinct_outputs: Default::default(), changed_by_pass: 0 };

    let inst_seq = |seq: &[usize]| -> Vec<String> {
        seq.iter()
            .enumerate()
            .map(|(pos, &a)| {
                let nest_src = if atoms[a].contains("{nested}") {
                    let which = &nested[pos % nested.len().max(1)];
                    which
                        .iter()
                        .enumerate()
                        .map(|(j, &na)| instantiate(&atoms[na], 1000 + pos * 10 + j, false, ""))
                        .collect::<Vec<_>>()
                        .join(" ")
                } else {
                    String::new()
                };
                instantiate(&atoms[a], pos, unsafe_extern, &nest_src)
            })
            .collect()
    };

    // every sequence of length 1..=max_len whose first atom is in `first`
    for &f in &first {
        let mut seq = vec![f];
        // iterative DFS over suffixes
        fn rec(seq: &mut Vec<usize>, n_atoms: usize, max_len: usize, f: &mut dyn FnMut(&[usize])) {
            f(seq);
            if seq.len() == max_len {
                return;
            }
            for a in 0..n_atoms {
                seq.push(a);
                rec(seq, n_atoms, max_len, f);
                seq.pop();
            }
        }
        if max_len >= 1 {
            rec(&mut seq, atoms.len(), max_len, &mut |s: &[usize]| {
                let srcs = inst_seq(s);
                run_sequence(&srcs, &json!(s), &mut st);
            });
        }
    }
    if let Some(ex) = job.get("explicit").and_then(|e| e.as_array()) {
        for s in ex {
            let seq: Vec<usize> = s.as_array().unwrap().iter().map(|x| x.as_u64().unwrap() as usize).collect();
            let srcs = inst_seq(&seq);
            run_sequence(&srcs, &json!(seq), &mut st);
        }
    }
    json!({"status":"ok","sequences":st.sequences,"applications":st.applications,"violations":st.violations,
           "ref_mismatch":st.ref_mismatch,"distinct_outputs":st.distinct_outputs.len(),"changed_by_pass":st.changed_by_pass})
}

/// Canonical per-module inventory of a bindings text, used for the whole-pipeline comparison.
pub fn pipeline_compare(base: &str, processed: &str, merge: bool) -> Value {
    let a = match base.parse::<proc_macro2::TokenStream>().map_err(|e| e.to_string()).and_then(canon_of_stream) {
        Ok(c) => c,
        Err(e) => return json!({"status":"err","err":format!("base: {e}")}),
    };
    let b = match processed.parse::<proc_macro2::TokenStream>().map_err(|e| e.to_string()).and_then(canon_of_stream) {
        Ok(c) => c,
        Err(e) => return json!({"status":"err","err":format!("processed: {e}")}),
    };
    let mut errs = vec![];
    check_module(&a, &b, merge, "root", &mut errs);
    json!({"status":"ok","errs":errs,"changed": a != b})
}
