//! Pool of worker processes. Jobs are JSON lines; results are JSON lines in
//! completion order (each carries its job id). A worker that exits, is
//! killed by a signal or exceeds the per-job timeout is attributed to the job
//! in flight (`status` = "crash" | "timeout") and replaced.

use serde_json::{json, Value};
use std::io::{BufRead, BufReader, Write};
use std::process::{Child, Command, Stdio};
use std::sync::atomic::{AtomicBool, AtomicUsize, Ordering};
use std::sync::{Arc, Mutex};
use std::time::{Duration, Instant};

struct Worker {
    child: Child,
    stdin: std::process::ChildStdin,
    stdout: BufReader<std::process::ChildStdout>,
}

fn spawn_worker(stderr_path: &Option<String>) -> Worker {
    let exe = std::env::current_exe().expect("current_exe");
    let mut cmd = Command::new(exe);
    cmd.arg("worker").stdin(Stdio::piped()).stdout(Stdio::piped());
    match stderr_path {
        Some(p) => {
            let f = std::fs::OpenOptions::new().create(true).append(true).open(p).expect("stderr file");
            cmd.stderr(Stdio::from(f));
        }
        None => {
            cmd.stderr(Stdio::null());
        }
    }
    let mut child = cmd.spawn().expect("spawn worker");
    let stdin = child.stdin.take().unwrap();
    let stdout = BufReader::new(child.stdout.take().unwrap());
    Worker { child, stdin, stdout }
}

pub fn run_jobs_main(args: &[String]) {
    let mut pos = vec![];
    let mut threads = 16usize;
    let mut timeout = 20.0f64;
    let mut stderr_path: Option<String> = None;
    let mut i = 0;
    while i < args.len() {
        match args[i].as_str() {
            "-j" => {
                threads = args[i + 1].parse().unwrap();
                i += 1;
            }
            "--timeout" => {
                timeout = args[i + 1].parse().unwrap();
                i += 1;
            }
            "--stderr" => {
                stderr_path = Some(args[i + 1].clone());
                i += 1;
            }
            a => pos.push(a.to_string()),
        }
        i += 1;
    }
    if pos.len() != 2 {
        eprintln!("usage: run-jobs JOBS OUT [-j N] [--timeout S] [--stderr FILE]");
        std::process::exit(2);
    }
    let jobs: Vec<String> = std::fs::read_to_string(&pos[0])
        .expect("read jobs")
        .lines()
        .filter(|l| !l.trim().is_empty())
        .map(|s| s.to_string())
        .collect();
    let n = jobs.len();
    let jobs = Arc::new(jobs);
    let next = Arc::new(AtomicUsize::new(0));
    let out = Arc::new(Mutex::new(std::io::BufWriter::new(std::fs::File::create(&pos[1]).expect("create out"))));
    let threads = threads.min(n.max(1));
    let mut handles = vec![];
    for _ in 0..threads {
        let jobs = jobs.clone();
        let next = next.clone();
        let out = out.clone();
        let stderr_path = stderr_path.clone();
        handles.push(std::thread::spawn(move || {
            let mut worker: Option<Worker> = None;
            loop {
                let idx = next.fetch_add(1, Ordering::SeqCst);
                if idx >= jobs.len() {
                    break;
                }
                let line = &jobs[idx];
                let id = serde_json::from_str::<Value>(line).ok().and_then(|v| v.get("id").cloned()).unwrap_or(Value::Null);
                let job_timeout = serde_json::from_str::<Value>(line)
                    .ok()
                    .and_then(|v| v.get("timeout").and_then(|t| t.as_f64()))
                    .unwrap_or(timeout);
                // "fresh": the job must run in a process that has never generated anything, and the
                // process is discarded afterwards
                let fresh = serde_json::from_str::<Value>(line)
                    .ok()
                    .and_then(|v| v.get("fresh").and_then(|t| t.as_bool()))
                    .unwrap_or(false);
                if fresh {
                    if let Some(mut w) = worker.take() {
                        drop(w.stdin);
                        let _ = w.child.wait();
                    }
                }
                if worker.is_none() {
                    worker = Some(spawn_worker(&stderr_path));
                }
                let w = worker.as_mut().unwrap();
                let t0 = Instant::now();
                let send_ok = writeln!(w.stdin, "{}", line).and_then(|_| w.stdin.flush()).is_ok();
                // watchdog
                let done = Arc::new(AtomicBool::new(false));
                let killed = Arc::new(AtomicBool::new(false));
                let pid = w.child.id() as i32;
                let wd = {
                    let done = done.clone();
                    let killed = killed.clone();
                    std::thread::spawn(move || {
                        let deadline = Instant::now() + Duration::from_secs_f64(job_timeout);
                        while Instant::now() < deadline {
                            if done.load(Ordering::SeqCst) {
                                return;
                            }
                            std::thread::sleep(Duration::from_millis(20));
                        }
                        if !done.load(Ordering::SeqCst) {
                            killed.store(true, Ordering::SeqCst);
                            unsafe {
                                libc::kill(pid, libc::SIGKILL);
                            }
                        }
                    })
                };
                let mut resp = String::new();
                let got = if send_ok { w.stdout.read_line(&mut resp).unwrap_or(0) } else { 0 };
                done.store(true, Ordering::SeqCst);
                let _ = wd.join();
                let result_line = if got > 0 && resp.ends_with('\n') && !killed.load(Ordering::SeqCst) {
                    resp.trim_end().to_string()
                } else {
                    // worker died
                    let mut w = worker.take().unwrap();
                    let status = w.child.wait().ok();
                    let (code, sig) = match status {
                        Some(s) => {
                            use std::os::unix::process::ExitStatusExt;
                            (s.code(), s.signal())
                        }
                        None => (None, None),
                    };
                    let st = if killed.load(Ordering::SeqCst) { "timeout" } else { "crash" };
                    json!({"id": id, "status": st, "exit_code": code, "signal": sig,
                           "ms": t0.elapsed().as_millis() as u64})
                    .to_string()
                };
                if fresh {
                    if let Some(mut w) = worker.take() {
                        drop(w.stdin);
                        let _ = w.child.wait();
                    }
                }
                let mut o = out.lock().unwrap();
                writeln!(o, "{}", result_line).unwrap();
            }
            if let Some(mut w) = worker {
                drop(w.stdin);
                let _ = w.child.wait();
            }
        }));
    }
    for h in handles {
        h.join().unwrap();
    }
    out.lock().unwrap().flush().unwrap();
}
