//! C11: histories (sequences of generations in one process) and exhaustive gate-level thread
//! interleavings (hook H3: bindgen::verif::gate at the phase boundaries of a generation).

use crate::modes::{builder_of_job, take_panic};
use serde_json::{json, Value};
use std::panic::{catch_unwind, AssertUnwindSafe};
use std::sync::{Arc, Condvar, Mutex};

fn side_files(job: &Value) -> Value {
    // side outputs named by the job (depfile, wrapper source): bytes after the generation
    let mut m = serde_json::Map::new();
    if let Some(files) = job.get("side_files").and_then(|f| f.as_array()) {
        for f in files {
            if let Some(p) = f.as_str() {
                let content = std::fs::read(p).map(|b| String::from_utf8_lossy(&b).to_string()).unwrap_or_else(|e| format!("<unreadable: {e}>"));
                m.insert(p.to_string(), json!(content));
                // a job that shares its path with later generations of the same history leaves the file in place
                if !job.get("keep_side").and_then(|v| v.as_bool()).unwrap_or(false) {
                    let _ = std::fs::remove_file(p);
                }
            }
        }
    }
    Value::Object(m)
}

pub fn one_generation(job: &Value) -> Value {
    let r = catch_unwind(AssertUnwindSafe(|| {
        let (b, log) = match builder_of_job(job) {
            Ok(x) => x,
            Err(e) => return json!({"status":"badflags","err":e}),
        };
        let repeat = job.get("clone_twice").and_then(|v| v.as_bool()).unwrap_or(false);
        let second = if repeat { Some(b.clone()) } else { None };
        let gen = |b: bindgen::Builder| -> Value {
            match b.generate() {
                Ok(bindings) => {
                    let mut buf = vec![];
                    match bindings.write(&mut buf) {
                        Ok(()) => json!({"status":"ok","text":String::from_utf8_lossy(&buf)}),
                        Err(e) => json!({"status":"write_err","err":e.to_string()}),
                    }
                }
                Err(e) => json!({"status":"err","err":e.to_string()}),
            }
        };
        let mut out = gen(b);
        out["side"] = side_files(job);
        out["cb_log"] = json!(*log.lock().unwrap());
        if let Some(b2) = second {
            let o2 = gen(b2);
            out["second_equal"] = json!(o2.get("text") == out.get("text") && o2.get("status") == out.get("status"));
        }
        out
    }));
    match r {
        Ok(v) => v,
        Err(_) => json!({"status":"panic","panic":take_panic()}),
    }
}

/// {"mode":"history","jobs":[job,...]}: run the jobs one after the other in this process.
pub fn history_job(job: &Value) -> Value {
    let jobs = job.get("jobs").and_then(|j| j.as_array()).cloned().unwrap_or_default();
    // "thread_per_generation": every generation runs on a thread of its own (started after the previous one was joined),
    // so state that is per-thread in bindgen or in clang-sys is exercised as well as process-wide state
    let per_thread = job.get("thread_per_generation").and_then(|v| v.as_bool()).unwrap_or(false);
    let outs: Vec<Value> = jobs
        .iter()
        .map(|j| {
            if per_thread {
                let j = j.clone();
                std::thread::Builder::new()
                    .stack_size(64 << 20)
                    .spawn(move || one_generation(&j))
                    .unwrap()
                    .join()
                    .unwrap_or_else(|_| json!({"status":"panic","panic":"generation thread died"}))
            } else {
                one_generation(j)
            }
        })
        .collect();
    json!({"status":"ok","outs":outs})
}

struct Sched {
    /// which thread may run (None = scheduler's turn)
    running: Option<usize>,
    /// threads that finished
    done: Vec<bool>,
    /// gate each thread is parked at
    parked_at: Vec<Option<String>>,
    trace: Vec<String>,
}

/// {"mode":"interleave","jobs":[jobA,jobB,...],"gates":[names],"schedule":[thread ids]}
/// Threads run one at a time; a thread runs from one selected gate to the next. The schedule lists, step by
/// step, which thread runs its next segment. Every thread must appear (selected gates hit + 1) times.
pub fn interleave_job(job: &Value) -> Value {
    let jobs = job.get("jobs").and_then(|j| j.as_array()).cloned().unwrap_or_default();
    let gates: Vec<String> = job.get("gates").and_then(|g| g.as_array()).map(|a| a.iter().filter_map(|s| s.as_str().map(String::from)).collect()).unwrap_or_default();
    let schedule: Vec<usize> = job.get("schedule").and_then(|g| g.as_array()).map(|a| a.iter().filter_map(|s| s.as_u64().map(|x| x as usize)).collect()).unwrap_or_default();
    let n = jobs.len();
    let st = Arc::new((Mutex::new(Sched { running: None, done: vec![false; n], parked_at: vec![Some("start".into()); n], trace: vec![] }), Condvar::new()));
    let mut handles = vec![];
    for (i, j) in jobs.iter().enumerate() {
        let st = st.clone();
        let j = j.clone();
        let gates = gates.clone();
        handles.push(std::thread::spawn(move || {
            let park = {
                let st = st.clone();
                move |name: &str| {
                    let (m, cv) = &*st;
                    let mut g = m.lock().unwrap();
                    g.parked_at[i] = Some(name.to_string());
                    g.running = None;
                    cv.notify_all();
                    while g.running != Some(i) {
                        g = cv.wait(g).unwrap();
                    }
                    g.parked_at[i] = None;
                }
            };
            // wait for the first grant
            {
                let (m, cv) = &*st;
                let mut g = m.lock().unwrap();
                while g.running != Some(i) {
                    g = cv.wait(g).unwrap();
                }
                g.parked_at[i] = None;
            }
            let park2 = park.clone();
            bindgen::verif::set_gate(Some(Box::new(move |name: &str| {
                if gates.iter().any(|g| g == name) {
                    park2(name);
                }
            })));
            let out = one_generation(&j);
            bindgen::verif::set_gate(None);
            let (m, cv) = &*st;
            let mut g = m.lock().unwrap();
            g.done[i] = true;
            g.running = None;
            cv.notify_all();
            out
        }));
    }
    // scheduler
    let mut err: Option<String> = None;
    {
        let (m, cv) = &*st;
        for (step, &t) in schedule.iter().enumerate() {
            let mut g = m.lock().unwrap();
            if t >= n || g.done[t] {
                err = Some(format!("schedule step {step}: thread {t} has no segment left"));
                break;
            }
            let at = g.parked_at[t].clone().unwrap_or_default();
            g.trace.push(format!("{t}@{at}"));
            g.running = Some(t);
            cv.notify_all();
            while g.running.is_some() {
                g = cv.wait(g).unwrap();
            }
        }
        // let any thread that still has segments run to completion in index order (and report it)
        let mut g = m.lock().unwrap();
        let leftover: Vec<usize> = (0..n).filter(|&i| !g.done[i]).collect();
        if !leftover.is_empty() && err.is_none() {
            err = Some(format!("schedule too short: threads {leftover:?} still had segments"));
        }
        for i in leftover {
            while !g.done[i] {
                g.running = Some(i);
                cv.notify_all();
                while g.running.is_some() {
                    g = cv.wait(g).unwrap();
                }
            }
        }
    }
    let outs: Vec<Value> = handles.into_iter().map(|h| h.join().unwrap_or_else(|_| json!({"status":"thread_panic"}))).collect();
    let trace = st.0.lock().unwrap().trace.clone();
    json!({"status":"ok","outs":outs,"trace":trace,"schedule_error":err})
}

/// {"mode":"freerun","jobs":[...],"rounds":k}: all threads run freely in parallel (sampling pass, labelled as such).
pub fn freerun_job(job: &Value) -> Value {
    let jobs = job.get("jobs").and_then(|j| j.as_array()).cloned().unwrap_or_default();
    let rounds = job.get("rounds").and_then(|r| r.as_u64()).unwrap_or(1);
    let mut handles = vec![];
    for j in jobs {
        handles.push(std::thread::spawn(move || (0..rounds).map(|_| one_generation(&j)).collect::<Vec<_>>()));
    }
    let outs: Vec<Value> = handles.into_iter().map(|h| json!(h.join().unwrap_or_default())).collect();
    json!({"status":"ok","outs":outs})
}
