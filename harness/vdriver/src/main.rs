//! vdriver: the Rust side of the /verif machinery. Linked against /repo/bindgen
//! (current working tree). Sub-commands:
//!
//!   vdriver worker                      one job per stdin line (JSON), one result per stdout line
//!   vdriver run-jobs JOBS OUT [-j N] [--timeout S] [--stderr FILE]
//!                                       pool of worker *processes*; a worker that dies / hangs is
//!                                       attributed to the job in flight and restarted
//!   vdriver inventory FILE.rs           syn inventory of a bindings file as JSON
//!
//! Everything that decides a property lives on the python side (vplib); this
//! binary only executes the real implementation and reports observations.

mod builder_ops;
mod inventory;
mod modes;
mod pool;
mod post;
mod sched;

use serde_json::{json, Value};
use std::io::{BufRead, Write};

fn main() {
    let args: Vec<String> = std::env::args().collect();
    if args.len() < 2 {
        eprintln!("usage: vdriver worker | run-jobs JOBS OUT [-j N] [--timeout S] | inventory FILE");
        std::process::exit(2);
    }
    match args[1].as_str() {
        "worker" => worker_main(),
        "run-jobs" => pool::run_jobs_main(&args[2..]),
        "inventory" => {
            let src = std::fs::read_to_string(&args[2]).expect("read");
            match inventory::inventory_of_source(&src) {
                Ok(v) => println!("{}", v),
                Err(e) => {
                    println!("{}", json!({"error": e}));
                    std::process::exit(1)
                }
            }
        }
        other => {
            if let Some(code) = modes::extra_subcommand(other, &args[2..]) {
                std::process::exit(code);
            }
            eprintln!("unknown subcommand {other}");
            std::process::exit(2);
        }
    }
}

thread_local! {
    pub static LAST_PANIC: std::cell::RefCell<Option<String>> = const { std::cell::RefCell::new(None) };
}

fn worker_main() {
    // Address-space cap so that a runaway job kills only this worker.
    unsafe {
        let gib: u64 = std::env::var("VDRIVER_AS_GIB").ok().and_then(|s| s.parse().ok()).unwrap_or(8);
        let lim = libc::rlimit { rlim_cur: gib << 30, rlim_max: gib << 30 };
        libc::setrlimit(libc::RLIMIT_AS, &lim);
    }
    std::panic::set_hook(Box::new(|info| {
        let msg = if let Some(s) = info.payload().downcast_ref::<&str>() {
            (*s).to_string()
        } else if let Some(s) = info.payload().downcast_ref::<String>() {
            s.clone()
        } else {
            "<non-string panic>".to_string()
        };
        let loc = info.location().map(|l| format!("{}:{}", l.file(), l.line())).unwrap_or_default();
        LAST_PANIC.with(|p| *p.borrow_mut() = Some(format!("{msg} @ {loc}")));
    }));
    let stdin = std::io::stdin();
    let stdout = std::io::stdout();
    for line in stdin.lock().lines() {
        let Ok(line) = line else { break };
        if line.trim().is_empty() {
            continue;
        }
        let job: Value = match serde_json::from_str(&line) {
            Ok(j) => j,
            Err(e) => {
                let mut o = stdout.lock();
                writeln!(o, "{}", json!({"status":"badjob","err":e.to_string()})).unwrap();
                o.flush().unwrap();
                continue;
            }
        };
        let t0 = std::time::Instant::now();
        let mut res = modes::run_job(&job);
        if let Value::Object(ref mut m) = res {
            m.insert("id".into(), job.get("id").cloned().unwrap_or(Value::Null));
            m.insert("ms".into(), json!(t0.elapsed().as_millis() as u64));
        }
        let mut o = stdout.lock();
        writeln!(o, "{}", res).unwrap();
        o.flush().unwrap();
    }
}
