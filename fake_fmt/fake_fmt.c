/* Scripted fake formatter for C15. Behaviour is encoded in the basename of argv[0]:
 *     ff-<stdin>-<stdout>-<term>
 *  stdin : close | none | half | all | slow | stream | shead | allerr | errall
 *          (allerr = read everything, then write 256 KiB of diagnostics to stderr before any output; errall = the
 *           diagnostics come first, before anything is read: a formatter that is noisy on stderr)
 *          (stream = echo every chunk to stdout as soon as it is read, like `cat`: if nobody drains stdout the child stops
 *           reading stdin; shead = the same for the first 100 KB, then stop reading, like `head -c`)
 *  stdout: nothing | half | full | fullbad | bad | reformat
 *  term  : e0 e1 e2 e3 e101 e255 kill segv
 * "half" for stdin reads about half of what arrives within the first read burst and then stops reading
 * (closing stdin); stdout modes are functions of the bytes actually read. */
#include <signal.h>
#include <stdio.h>
#include <stdlib.h>
#include <string.h>
#include <unistd.h>

static char *buf; static size_t len, cap;
static void put(const char *p, size_t n) {
    if (len + n > cap) { cap = (len + n) * 2 + 4096; buf = realloc(buf, cap); }
    memcpy(buf + len, p, n); len += n;
}
static void noise(void) {
    char line[1024]; memset(line, 'w', sizeof line); memcpy(line, "warning: ", 9); line[sizeof line - 1] = '\n';
    for (int i = 0; i < 256; i++) { const char *p = line; size_t n = sizeof line; while (n) { ssize_t k = write(2, p, n); if (k <= 0) return; p += k; n -= (size_t)k; } }
}
static void wr(const char *p, size_t n) {
    while (n) { ssize_t k = write(1, p, n); if (k <= 0) return; p += k; n -= (size_t)k; }
}
int main(int argc, char **argv) {
    (void)argc;
    signal(SIGPIPE, SIG_IGN);
    const char *base = strrchr(argv[0], '/'); base = base ? base + 1 : argv[0];
    char in[32] = "", out[32] = "", term[32] = "";
    if (sscanf(base, "ff-%31[^-]-%31[^-]-%31s", in, out, term) != 3) return 99;
    char tmp[65536];
    if (!strcmp(in, "close")) { close(0); }
    else if (!strcmp(in, "none")) { /* keep open, never read */ }
    else if (!strcmp(in, "half")) {
        /* read until 1 MiB or a short pause, then drop half and close */
        ssize_t k; size_t want = 1 << 20;
        while (len < want && (k = read(0, tmp, sizeof tmp)) > 0) put(tmp, (size_t)k);
        len = len / 2; close(0);
    } else if (!strcmp(in, "stream") || !strcmp(in, "shead")) {
        ssize_t k; size_t total = 0, lim = !strcmp(in, "shead") ? 100 * 1024 : (size_t)-1;
        while (total < lim && (k = read(0, tmp, sizeof tmp)) > 0) { wr(tmp, (size_t)k); total += (size_t)k; }
        if (total >= lim) close(0);
    } else if (!strcmp(in, "allerr")) {
        ssize_t k; while ((k = read(0, tmp, sizeof tmp)) > 0) put(tmp, (size_t)k);
        noise();
    } else if (!strcmp(in, "errall")) {
        noise();
        ssize_t k; while ((k = read(0, tmp, sizeof tmp)) > 0) put(tmp, (size_t)k);
    } else if (!strcmp(in, "slow")) {
        ssize_t k; while ((k = read(0, tmp, 4096)) > 0) { put(tmp, (size_t)k); usleep(200); }
    } else { ssize_t k; while ((k = read(0, tmp, sizeof tmp)) > 0) put(tmp, (size_t)k); }
    if (!strcmp(out, "half")) wr(buf, len / 2);
    else if (!strcmp(out, "full")) wr(buf, len);
    else if (!strcmp(out, "fullbad")) { wr(buf, len); wr("\n// \xff\xfe bad\n", 12); }
    else if (!strcmp(out, "bad")) wr("\xff\xfe\xc3\x28", 4);
    else if (!strcmp(out, "reformat")) { /* whitespace-only change */
        wr("\n\n", 2); wr(buf, len); wr("\n\n", 2);
    }
    fflush(stdout);
    if (!strcmp(term, "kill")) { raise(SIGKILL); }
    if (!strcmp(term, "segv")) { signal(SIGSEGV, SIG_DFL); raise(SIGSEGV); }
    return atoi(term + 1);
}
