"""C14 - bindings use only features of the selected Rust target, monotonically.

Explored: every minor version 1.51..1.86 and nightly x edition {none,2018,2021,2024} x trigger
headers (plus one below the earliest supported version). Oracle: a hand-written table of when Rust
stabilised each construct (independent of bindgen/features.rs), monotonicity of the gated constructs,
edition availability, default-target equivalence, and rustc 1.95 acceptance of every stable output.
"""
import os
import re

from . import common
from .common import Check

LEVEL = "exploration"
NIGHTLY = 10_000

HEADERS = {
    "fn": ("int fn1(int x);\nextern int gvar;\nextern const int cvar;\n", []),
    "rec": ("struct S { char a; int b; double c; };\nunion U { int i; char c[9]; };\n", []),
    "str": ('#define STR "hello"\n#define STR2 "a\\"b\\n"\n#define EMB "a\\0b"\n', ["--generate-cstr"]),
    "flex": ("struct Flex { int n; int data[]; };\n", ["--flexarray-dst"]),
    "abi": ("void tc(void); void vc(void); void cu(void); void ef(void); void plain(void);\n",
            ["--override-abi", "tc=thiscall", "--override-abi", "vc=vectorcall",
             "--override-abi", "cu=C-unwind", "--override-abi", "ef=efiapi"]),
    # the same gated ABIs on function POINTER types: typedefs, members, parameters (they take a different path through codegen)
    "abiptr": ("typedef void (*tc_cb)(void); typedef void (*vc_cb)(int); typedef void (*cu_cb)(void); typedef int (*ef_cb)(int);\n"
               "struct CB { tc_cb a; vc_cb b; cu_cb c; ef_cb d; void (*cu_field)(int); int tail; };\n"
               "void takes(cu_cb p, void (*ef_param)(int)); ef_cb gives(void); extern cu_cb cu_global;\n",
               ["--override-abi", "tc_cb=thiscall", "--override-abi", "vc_cb=vectorcall", "--override-abi", "cu_cb|cu_field=C-unwind",
                "--override-abi", "ef_cb|ef_param=efiapi"]),
    "core": ("struct C { int a; unsigned long b; char c; }; long cf(short s, unsigned char u);\n", ["--use-core"]),
    "corestr": ('#define CS "x"\nint g(void);\n', ["--use-core", "--generate-cstr"]),
}
HEADERS["all"] = ("".join(h for h, _ in HEADERS.values()),
                  ["--generate-cstr", "--flexarray-dst", "--use-core", "--override-abi", "cu|cu_cb|cu_field=C-unwind", "--override-abi", "ef_cb|ef_param=efiapi"])

# inputs on the far side of size thresholds, and targets whose DEFAULT calling conventions are gated ones (kept out of "all")
HEADERS["bigrec"] = ("struct Big { char pad[1048577]; int after; long tail; };\nunion BigU { char pad[2097153]; int i; };\nstruct Small { char c; int i; };\n", [])
HEADERS["vt-win32"] = ("class V { public: virtual void f(); virtual int g(int); int x; };\nclass W { public: void m(int); static int s(); int y; };\n"
                       "void __stdcall sc(int); void __fastcall fc(int); void __vectorcall vc2(int);\n",
                       ["--experimental", "--vtable-generation", "--", "-x", "c++", "--target=i686-pc-windows-msvc"])
HEADERS["win64-sysv"] = ("void __attribute__((ms_abi)) m1(int); void __attribute__((sysv_abi)) s1(int); typedef void (__attribute__((ms_abi)) *mcb)(int);\n"
                         "struct HoldsM { mcb f; };\n", ["--", "--target=x86_64-pc-windows-msvc"])

HEADERS["corefloat"] = ("float ff(double d); struct F { float a; double b; long double c; };\n", ["--use-core", "--no-convert-floats"])

# construct -> (regex on whitespace-free token text, minimal minor version, minimal edition or None)
# Source: Rust release notes (stabilisation versions), NOT bindgen/features.rs.
CONSTRUCTS = {
    "unsafe_extern": (r'unsafeextern"[^"]*"\{', 82, None),   # a block; `unsafe extern "C" fn(..)` pointer types are as old as Rust
    "offset_of": (r"offset_of!", 77, None),
    "cstr_literal": (r'(?<![A-Za-z0-9_"\\])c"', 77, 2021),
    "core_ffi_ctype": (r"::core::ffi::c_", 64, None),
    "core_ffi_cstr": (r"::core::ffi::CStr", 64, None),
    "abi_c_unwind": (r'extern"C-unwind"', 71, None),
    "abi_efiapi": (r'extern"efiapi"', 68, None),
    "abi_thiscall": (r'extern"thiscall"', 73, None),
    "abi_vectorcall": (r'extern"vectorcall"', NIGHTLY, None),
    "ptr_from_raw_parts": (r"ptr::from_raw_parts", NIGHTLY, None),
    "ptr_to_raw_parts": (r"\.to_raw_parts\(", NIGHTLY, None),
    "layout_for_value_raw": (r"for_value_raw", NIGHTLY, None),
    "const_cstr_unchecked": (r"from_bytes_with_nul_unchecked", 59, None),
}
# features for monotonicity: once a target enables it, all later targets (same edition setting) must too
MONOTONE = {
    "unsafe_extern": r'unsafeextern"[^"]*"\{',
    "offset_of": r"offset_of!",
    "cstr_literal": CONSTRUCTS["cstr_literal"][0],
    "core_ffi_ctype": r"::core::ffi::c_",
    "cstr_typed_const": r"ffi::CStr",
    "abi_c_unwind": r'extern"C-unwind"',
    "abi_efiapi": r'extern"efiapi"',
    "abi_thiscall": r'extern"thiscall"',
    "abi_vectorcall": r'extern"vectorcall"',
    "ptr_metadata": r"ptr::from_raw_parts",
    "layout_for_ptr": r"for_value_raw",
}
EDITION_MIN = {"2018": 31, "2021": 56, "2024": 85}  # Rust release notes
EARLIEST = 51  # bindgen's documented earliest supported version (README / book)


def blank_strings(text):
    """Replace the contents of every (non-raw) string literal by nothing, keeping prefix and quotes;
    ABI strings (directly after the `extern` keyword) are kept."""
    out, i, n = [], 0, len(text)
    while i < n:
        ch = text[i]
        if ch == '"':
            keep = "".join(out).rstrip().endswith("extern")
            j = i + 1
            while j < n and text[j] != '"':
                j += 2 if text[j] == "\\" else 1
            out.append(text[i:j + 1] if keep else '""')
            i = j + 1
        else:
            out.append(ch)
            i += 1
    return "".join(out)


def squeeze(text):
    return re.sub(r"\s+", "", blank_strings(text))


def vname(v):
    return "nightly" if v == NIGHTLY else f"1.{v}"


def newest_known_from_source():
    src = open(os.path.join(common.REPO, "bindgen", "features.rs")).read()
    minors = [int(m) for m in re.findall(r"Stable_1_\d+\((\d+)\)\s*=>", src)]
    common.guard(minors, "C14: cannot find the stable release table in bindgen/features.rs")
    return max(minors)


def job_args(hpath, flags, v, ed):
    flags = list(flags)
    tail = []
    if "--" in flags:   # clang arguments of the trigger header stay last
        flags, tail = flags[:flags.index("--")], flags[flags.index("--"):]
    a = [hpath, "--formatter", "none"] + flags
    if v is not None:
        a += ["--rust-target", vname(v)]
    if ed is not None:
        a += ["--rust-edition", ed]
    return a + tail


def judge(ck, key, res, v, ed):
    """Safety + edition availability for one (header, version, edition) run. Returns squeezed text or None."""
    hname, _, _ = key
    supported = ed is None or v == NIGHTLY or EDITION_MIN[ed] <= v
    case = f"hdr={hname} target={vname(v)} edition={ed}"
    detail = {"header": hname, "target": v, "edition": ed}
    if v < EARLIEST:
        if res["status"] == "ok":
            ck.violation(case + " below-earliest-accepted", dict(detail, why="target below the earliest supported version was accepted"))
        return None
    if not supported:
        if not (res["status"] == "err" and res.get("err_kind") == "UnsupportedEdition"):
            ck.violation(case + " unsupported-edition-not-rejected",
                         dict(detail, why=f"edition {ed} is not available on {vname(v)} but result was {res['status']}/{res.get('err_kind')}"))
        return None
    if res["status"] != "ok":
        ck.violation(case + " supported-pair-failed",
                     dict(detail, why=f"supported pair gave {res['status']} {res.get('err_kind')} {res.get('err', res.get('panic', ''))[:200]}"))
        return None
    text = squeeze(res["text"])
    eff_ed = int(ed) if ed else max(int(e) for e, m in EDITION_MIN.items() if v == NIGHTLY or m <= v)
    for cname, (rx, minv, mined) in CONSTRUCTS.items():
        if re.search(rx, text):
            ck.nontriv(f"present:{cname}")
            bad = v < minv or (mined is not None and eff_ed < mined)
            if bad:
                ck.violation(case + f" construct={cname}",
                             dict(detail, construct=cname,
                                  why=f"{cname} (stable since {vname(minv)}" + (f", edition>={mined}" if mined else "") +
                                  f") emitted for target {vname(v)} edition {eff_ed}"))
        else:
            ck.nontriv(f"absent:{cname}")
    return text


def new_check(tier):
    return Check("C14", tier, LEVEL,
                 "every (trigger header, minor 1.50..1.86|nightly, edition none|2018|2021|2024); non-trivial = distinct "
                 "(construct present / absent) observations and distinct output texts")


def run(ck, only=None):
    wd = ck.wd
    versions = [50] + list(range(51, 87)) + [NIGHTLY]
    editions = [None, "2018", "2021", "2024"]
    hnames = list(HEADERS) if ck.tier == "thorough" else ["all", "corestr", "abi", "abiptr", "str", "bigrec", "vt-win32", "corefloat"]
    jobs, meta = [], {}
    for hn in hnames:
        src, flags = HEADERS[hn]
        hp = os.path.join(wd, f"t_{hn}.h")
        open(hp, "w").write(src)
        for v in versions:
            for ed in editions:
                key = (hn, v, ed)
                if only and key != only:
                    continue
                jid = f"{hn}|{v}|{ed}"
                jobs.append({"id": jid, "args": job_args(hp, flags, v, ed)})
                meta[jid] = key
        if not only:
            jobs.append({"id": f"{hn}|default", "args": job_args(hp, flags, None, None)})
            for ed in editions[1:]:
                jobs.append({"id": f"{hn}|default|{ed}", "args": job_args(hp, flags, None, ed)})
    # the library API lets target and edition be set in either order: both orders must give the same verdict and the same text
    order_jobs = []
    if not only:
        hp_o = os.path.join(wd, "t_order.h")
        open(hp_o, "w").write(HEADERS["str"][0] + HEADERS["fn"][0])
        for v in versions:
            for ed in editions[1:]:
                if v < EARLIEST:
                    continue
                for order in ("target-edition", "edition-target"):
                    ops = [["rust_target", vname(v)], ["rust_edition", ed]]
                    if order == "edition-target":
                        ops.reverse()
                    order_jobs.append({"id": f"order|{v}|{ed}|{order}", "mode": "gen_ops", "ops": [["header", hp_o], ["generate_cstr", True], ["formatter", "none"]] + ops})
    res = common.run_jobs(jobs + order_jobs, wd, timeout=30)
    for v in versions:
        for ed in editions[1:]:
            a, b = res.get(f"order|{v}|{ed}|target-edition"), res.get(f"order|{v}|{ed}|edition-target")
            if a is None or b is None:
                continue
            ck.count()
            ck.nontriv(("order", v, ed))
            va = (a["status"], a.get("err_kind"), a.get("text"))
            vb = (b["status"], b.get("err_kind"), b.get("text"))
            supported = v == NIGHTLY or EDITION_MIN[ed] <= v
            if va != vb or (not supported and not (b["status"] == "err" and b.get("err_kind") == "UnsupportedEdition")):
                ck.violation(f"call-order target={vname(v)} edition={ed}", {"header": "order", "target": v, "edition": ed,
                             "why": f"rust_target().rust_edition() gives {va[:2]}, rust_edition().rust_target() gives {vb[:2]}" + ("" if supported else " (the pair is unsupported: both must be UnsupportedEdition)")})
    texts = {}
    for jid, key in meta.items():
        ck.count()
        t = judge(ck, key, res[jid], key[1], key[2])
        if t is not None:
            texts[key] = t
            ck.nontriv("text:" + common.sha(t))
    if only:
        return
    ck.sample({"header": "all", "flags": HEADERS["all"][1], "target": "1.76", "edition": "2021"})
    ck.sample({"header": "abi", "target": "nightly", "edition": None})
    # monotonicity per (header, edition setting)
    for hn in hnames:
        for ed in editions:
            seq = [(v, texts.get((hn, v, ed))) for v in versions]
            seq = [(v, t) for v, t in seq if t is not None]
            for fname, rx in MONOTONE.items():
                seen_at = None
                for v, t in seq:
                    has = re.search(rx, t) is not None
                    if has and seen_at is None:
                        seen_at = v
                    if not has and seen_at is not None:
                        ck.violation(f"hdr={hn} edition={ed} feature={fname} on@{vname(seen_at)} off@{vname(v)}",
                                     {"header": hn, "edition": ed, "feature": fname, "mono": [seen_at, v],
                                      "why": f"{fname} enabled at {vname(seen_at)} but missing at later target {vname(v)}"})
                        break
    # defaults: newest known stable release and its newest edition
    newest = newest_known_from_source()
    newest_ed = max(e for e, m in EDITION_MIN.items() if m <= newest)
    for hn in hnames:
        d = res[f"{hn}|default"]
        ck.count()
        ref = texts.get((hn, newest, newest_ed))
        if d["status"] != "ok" or ref is None or squeeze(d["text"]) != ref:
            ck.violation(f"hdr={hn} default-target",
                         {"header": hn, "default": True,
                          "why": f"output with no target differs from --rust-target 1.{newest} --rust-edition {newest_ed}"})
        # no target + explicit edition == newest known target + that edition (or both rejected)
        for ed in editions[1:]:
            d = res[f"{hn}|default|{ed}"]
            r = res[f"{hn}|{newest}|{ed}"]
            ck.count()
            same = (d["status"] == r["status"]) and (d.get("text") == r.get("text")) and (d.get("err_kind") == r.get("err_kind"))
            if not same:
                ck.violation(f"hdr={hn} default-target edition={ed}",
                             {"header": hn, "default": True,
                              "why": f"no target + edition {ed} differs from --rust-target 1.{newest} --rust-edition {ed}"})
    # every gated construct must have been seen both present and absent (vacuity)
    for cname in CONSTRUCTS:
        common.guard(f"present:{cname}" in ck.nontrivial and f"absent:{cname}" in ck.nontrivial,
                     f"C14 vacuity: construct {cname} never observed both present and absent")
    # rustc 1.95 must accept every stable output (nightly-only constructs excluded)
    comp = []
    for (hn, v, ed), t in texts.items():
        if v == NIGHTLY or hn in ("abi", "abiptr", "vt-win32", "win64-sysv") or (ck.tier == "quick" and hn != "all"):  # thiscall/efiapi/vectorcall do not exist on the host target
            continue
        if ck.tier == "quick" and v not in (51, 58, 59, 63, 64, 70, 76, 77, 81, 82, 85, 86):
            continue
        comp.append((hn, v, ed))

    def compile_one(k):
        hn, v, ed = k
        eff = ed or max(e for e, m in EDITION_MIN.items() if m <= v)
        d = os.path.join(wd, "rc", f"{hn}_{v}_{ed}")
        os.makedirs(d, exist_ok=True)
        p = os.path.join(d, "b.rs")
        pre = "#![allow(warnings)]\n" + ("#![no_std]\n" if "--use-core" in HEADERS[hn][1] and hn in ("core", "corestr") and v >= 64 else "")  # before 1.64 there are no core::ffi C types: bindgen falls back to std::os::raw
        open(p, "w").write(pre + res[f"{hn}|{v}|{ed}"]["text"])
        ok, err = common.rustc_meta(p, edition=eff)
        return k, ok, err

    for k, ok, err in common.pmap(compile_one, comp):
        ck.count()
        if not ok:
            hn, v, ed = k
            ck.violation(f"hdr={hn} target={vname(v)} edition={ed} rustc-rejects",
                         {"header": hn, "target": v, "edition": ed, "compile": True, "why": err[:800]})
    ck.extra["versions"] = len(versions)
    ck.extra["compiled_with_rustc_1_95"] = len(comp)
    ck.assume("stabilisation table hand-written from the Rust release notes; rustc 1.95 is the only compiler installed, "
              "so older targets are checked by construct scan, not by their own compiler")


def replay(ck, case, detail):
    n0 = len(ck.violations)
    if detail.get("mono") or detail.get("default") or detail.get("compile"):
        run(ck)
        return not any(c == case for c, _ in ck.violations[n0:])
    run(ck, only=(detail["header"], detail["target"], detail["edition"]))
    return not any(c == case for c, _ in ck.violations[n0:])
