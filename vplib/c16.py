"""C16 - static-function wrappers compile and behave like the wrapped functions.

Explored: headers whose functions are `static` / `static inline`, signatures enumerated from the C04 alphabet
(scalars, typedefs, enums, pointers incl. const pointees, array parameters, callback parameters, by-value structs
and unions, void results, unnamed parameters, variadic statics which must get NO binding), x suffix {default,
custom} x path {default-relative name, custom} x input {one header, two headers, header_contents} x {C, C++}.
Oracle: clang compiles the emitted wrapper source against the headers; `nm` must show exactly one external
`<name><suffix>` per static function that received a binding and nothing else; a rustc-built caller linked with
the wrapper object calls every binding and compares result and side effect (a global the functions write) with
the fold computed in Rust, which is what a direct C call computes (cross-checked by direct C trampolines).
"""
import os
import re

from . import common, gen_fn, probes, c04
from .common import Check

LEVEL = "exploration"
PER_LIB = 40


def functions(tier, seed):
    A = c04.alphabet()
    by = {t.key: t for t in A}
    fns = []

    def add(ret, params, variadic=False, kind="static inline"):
        f = gen_fn.Fn(f"K{len(fns) + 1}", ret, params, variadic)
        f.storage = kind
        fns.append(f)

    int_t = by["int"]
    for k, t in enumerate(A):
        if t.mode in ("value", "struct") or t.key in ("p_int", "cp_double", "p_s16ld"):
            add(t, [int_t], kind="static" if k % 2 else "static inline")
        add(int_t, [t], kind="static inline" if k % 2 else "static")
        add(None, [t])
    pool = [by[k] for k in ("char", "uchar", "int", "ulong", "double", "bool", "enum", "tdint", "s3c", "s8if", "s16ld", "s24", "s33", "p_int", "cp_char",
                            "arr_int", "carr_char", "cb", "cp_s16ld", "pp_int")]
    if tier == "quick":
        pool = [t for k, t in enumerate(pool) if (k + seed) % 2 == 0 or t.key in ("s16ld", "arr_int", "cb", "cp_char")]
    for a in pool:
        for b in pool:
            add(int_t, [a, b])
    for p in (int_t, by["double"]):
        add(int_t, [p, int_t], variadic=True)
    return fns


UNION_H = "union un2 { int i; float f; };\nstatic inline union un2 un_mk(union un2 u, int d) { u.i += d; return u; }\nstatic int un_get(const union un2 *u) { return u->i; }\nstatic inline int unnamed_params(int, char) { return 7; }\nstatic inline void only_side_effect(void) { g_hash = 4242; }\n"


def make_header(fns, path, extra=""):
    sup = c04.supports(fns)
    hdr = ["#pragma once", "#include <string.h>", "#include <stdarg.h>", gen_fn.PRELUDE_C] + sup + ["extern unsigned long long g_hash;",
           "static inline void fold(unsigned long long *h, unsigned long long v) { for (int i = 0; i < 8; i++) { *h ^= (v >> (8 * i)) & 0xff; *h *= 1099511628211ull; } }"]
    for f in fns:
        d = f.c_def()
        hdr.append(f"{f.storage} {d}")
    hdr.append(extra)
    open(path, "w").write("\n".join(hdr) + "\n")


def new_check(tier):
    return Check("C16", tier, LEVEL,
                 "cases = static / static inline functions over the C04 type alphabet (every type as result / single parameter; all ordered "
                 "pairs of a 20-type sub-alphabet; variadic statics; unions; unnamed parameters; void) x {default, custom} suffix x path x "
                 "input mode x language; non-trivial = functions with an aggregate, pointer, array, callback or more than one parameter")


def nm_defined(obj):
    p = common.sh(["nm", "--defined-only", "-g", obj])
    return {l.split()[-1] for l in p.stdout.decode().splitlines() if len(l.split()) >= 3 and l.split()[-2] in ("T", "W", "D", "B", "R")}


def run_variant(ck, vname, fns, wd, suffix, pathname, input_mode, lang="c"):
    os.makedirs(wd, exist_ok=True)
    libs = [fns[i:i + PER_LIB] for i in range(0, len(fns), PER_LIB)]
    ext = "h" if lang == "c" else "hpp"
    jobs = []
    for li, lib in enumerate(libs):
        hp = os.path.join(wd, f"st{li}.{ext}")
        make_header(lib, hp, UNION_H if li == 0 else "")
        wpath = os.path.join(wd, f"{pathname}{li}")
        flags = ["--wrap-static-fns", "--wrap-static-fns-path", wpath, "--experimental", "--formatter", "prettyplease", "--no-layout-tests"]
        if suffix:
            flags += ["--wrap-static-fns-suffix", suffix]
        cl = ["--", "-x", "c++", "-std=c++14"] if lang == "cpp" else []
        if input_mode == "path":
            j = {"id": str(li), "args": [hp] + flags + cl, "inventory": True}
        elif input_mode == "two":
            h2 = os.path.join(wd, f"second{li}.{ext}")
            open(h2, "w").write("#pragma once\nstatic inline int second_hdr_fn(int x) { return x + 1000; }\n")
            j = {"id": str(li), "ops": [["header", h2], ["header", hp], ["wrap_static_fns", True], ["wrap_static_fns_path", wpath], ["formatter", "prettyplease"], ["layout_tests", False]]
                 + ([["wrap_static_fns_suffix", suffix]] if suffix else []), "mode": "gen_ops", "inventory": True}
        else:
            j = {"id": str(li), "ops": [["wrap_static_fns", True], ["wrap_static_fns_path", wpath], ["formatter", "prettyplease"], ["layout_tests", False]]
                 + ([["wrap_static_fns_suffix", suffix]] if suffix else []), "mode": "gen_ops", "inventory": True,
                 "header_contents": [[os.path.join(wd, f"virtual{li}.h"), open(hp).read()]], "clang_args": ["-I", wd]}
        j["timeout"] = 120
        jobs.append(j)
    res = common.run_jobs(jobs, wd, timeout=120)
    sfx = suffix or "__extern"

    def one(li):
        lib = libs[li]
        out = []
        r = res[str(li)]
        if r["status"] != "ok":
            return [(None, "generation-failed", str(r.get("err") or r.get("panic"))[:200])]
        wsrc = os.path.join(wd, f"{pathname}{li}.{'c' if lang == 'c' else 'cpp'}")
        idx_raw = c04.rust_name_index(r["inventory"])
        bound = {s[:-len(sfx)]: v for s, v in idx_raw.items() if s.endswith(sfx)}
        dangling = [s for s, v in idx_raw.items() if not s.endswith(sfx) and (s in {f.name for f in lib} or s.startswith("_ZL"))]
        if dangling:
            out.append((None, "dangling-binding", f"bindings for static functions that refer to no wrapper symbol: {dangling[:4]}"))
        if not os.path.exists(wsrc):
            if bound or dangling:
                out.append((None, "wrapper-source-missing", f"bindings reference wrappers but {os.path.basename(wsrc)} was not written"))
            return out
        obj = os.path.join(wd, f"wrap{li}.o")
        rc, _, err = common.clang((["-x", "c++", "-std=c++14"] if lang == "cpp" else ["-std=gnu11"]) + ["-w", "-O1", "-I", wd, "-c", wsrc, "-o", obj], cwd=wd)
        if rc != 0:
            m = re.search(r"error: (.*)", err)
            return out + [(None, "wrapper-does-not-compile", (m.group(1) if m else err[:200]))]
        defined = nm_defined(obj)
        want = {f.name + sfx for f in lib if not f.variadic}
        if li == 0:
            want |= {n + sfx for n in ("un_mk", "un_get", "unnamed_params", "only_side_effect")}
        if input_mode == "two":
            want.add("second_hdr_fn" + sfx)
        have_binding = {s for s in idx_raw if s.endswith(sfx)}
        if defined != have_binding:
            out.append((None, "wrapper-symbols", f"external symbols of the wrapper object {sorted(defined ^ have_binding)[:6]} do not match the bindings' link names"))
        miss = want - defined
        if miss:
            out.append((None, "wrapper-missing", f"static functions without a wrapper: {sorted(miss)[:6]}"))
        for f in lib:
            if f.variadic and (f.name in bound or f.name in idx_raw):
                out.append((f, "variadic-static-has-binding", "a variadic static function cannot be wrapped and must get no binding"))
        # behaviour: direct.c defines g_hash; caller goes through the bindings
        dsrc = os.path.join(wd, f"direct{li}.c")
        open(dsrc, "w").write(f'#include "st{li}.{ext}"\nunsigned long long g_hash;\nunsigned long long direct_probe(void) {{ return g_hash; }}\n')
        dobj = os.path.join(wd, f"direct{li}.o")
        rc, _, err = common.clang((["-x", "c++", "-std=c++14"] if lang == "cpp" else ["-std=gnu11"]) + ["-w", "-O1", "-I", wd, "-c", dsrc, "-o", dobj], cwd=wd)
        if rc != 0:
            raise common.Machinery("C16 direct.c does not compile: " + err[:400])
        idx = dict(bound)
        idx["g_hash"] = idx_raw.get("g_hash")
        live = [f for f in lib if not f.variadic]
        bp = os.path.join(wd, f"b{li}.rs")
        open(bp, "w").write(r["text"])
        c04.NAMING["mode"] = "plain"
        for attempt in range(4):
            src, missing = c04.rust_caller(live, idx, bp, "")
            src = re.sub(r"  unsafe \{ if b::g_i.*?\n", "", src)
            src = "\n".join(l for l in src.split("\n") if "BADG" not in l)
            for f in missing:
                out.append((f, "no-binding", "the static function received no binding"))
            live = [f for f in live if f not in missing]
            mp = os.path.join(wd, f"main{li}.rs")
            open(mp, "w").write(src)
            exe = os.path.join(wd, f"exe{li}")
            ok, tags, msgs = probes.rustc_diagnose(mp, exe, r["text"], bp, extra=["-C", f"link-arg={obj}", "-C", f"link-arg={dobj}"])
            if ok:
                break
            bt = probes.last_by_tag()
            bad = [f for k, f in enumerate(live) if f"K{k}" in tags]
            if not bad:
                return out + [(None, "caller-does-not-build", "; ".join(sorted(set(msgs))[:3])[:300])]
            for k, f in enumerate(live):
                if f"K{k}" in tags:
                    out.append((f, "binding-not-call-compatible", " | ".join(sorted(set(bt.get(f"K{k}", msgs[:2]))))[:300]))
            live = [f for f in live if f not in bad]
        else:
            return out
        p = common.sh([exe], timeout=120)
        if p.returncode != 0:
            return out + [(None, "caller-crashed", f"exit {p.returncode}")]
        for line in p.stdout.decode().splitlines():
            w = line.split()
            if w[0] == "BAD":
                out.append((live[int(w[1])], w[3], f"value set {w[2]}"))
        return out

    for li, lib in enumerate(libs):
        for f in lib:
            ck.count()
            if len(f.params) > 1 or any(p.mode != "value" for p in f.params) or (f.ret and f.ret.mode != "value"):
                ck.nontriv((f.cid(), vname))
    for results in common.pmap(one, range(len(libs))):
        seen = set()
        for f, what, why in results:
            key = (f.cid() if f else None, what, why if f is None else "")
            if key in seen:
                continue
            seen.add(key)
            case = f"{f.cid() + ' ' if f else ''}variant={vname} {what}"
            ck.violation(case, {"variant": vname, "cid": f.cid() if f else None, "why": f"{what}: {why}" + (f"; definition: {f.storage} {f.proto()}" if f else "")})


VARIANTS = [("default", None, "wrap", "path", "c"), ("suffix", "_w2", "wrap", "path", "c"), ("subdir-path", None, "sub/dir/w", "path", "c"),
            ("two-headers", None, "wrap", "two", "c"), ("header-contents", None, "wrap", "contents", "c"), ("cpp", None, "wrap", "path", "cpp")]


def run(ck, only=None):
    fns = functions(ck.tier, ck.seed)
    for vname, suffix, pathname, input_mode, lang in VARIANTS:
        if only and only.get("variant") != vname:
            continue
        sel = fns if vname in ("default",) or ck.tier == "thorough" else fns[:120]
        if lang == "cpp":
            sel = [f for f in fns if "_Bool" not in f.proto() and "enum" not in f.proto()][:40]  # _Bool is not C++; C++ enums need casts in the fold
        wd = os.path.join(ck.wd, vname)
        os.makedirs(os.path.join(wd, "sub", "dir"), exist_ok=True)
        run_variant(ck, vname, sel, wd, suffix, pathname, input_mode, lang)
    if not only or only.get("odd"):
        odd_part(ck, only)
    if not only or only.get("rerun"):
        rerun_part(ck, only)
    if not only or only.get("foreign"):
        foreign_part(ck, only)
    if not only or only.get("inproc"):
        in_process_history_part(ck, only)
    if only and (only.get("odd") or only.get("rerun") or only.get("foreign") or only.get("inproc")):
        return
    ck.sample({"definition": f"{fns[7].storage} {fns[7].proto()} {{ ...fold arguments, store g_hash, derive result... }}", "variants": [v[0] for v in VARIANTS]})
    ck.extra["static_functions"] = len(fns)
    ck.assume("the Rust-side fold is the specification of what a direct C call computes (same generator as C04, where it is validated against "
              "clang-compiled definitions); host target only")


ODD_FUNCS = [
    ("int128", "c", "static inline int wide(int a, __int128 b) { return a + (int)b; }"),
    ("uint128-result", "c", "static inline unsigned __int128 widen(unsigned a) { return a; }"),
    ("long-double", "c", "static inline long double ld(long double x) { return x + 1; }"),
    ("complex", "c", "static inline float cre(_Complex float z) { return __real__ z; }"),
    ("vector", "c", "typedef float v4 __attribute__((vector_size(16)));\nstatic inline float lane(v4 v) { return v[0]; }"),
    ("array2d", "c", "static inline int cell(int m[2][3]) { return m[1][2]; }"),
    ("ptr-to-array", "c", "static inline int first(int (*p)[4]) { return (*p)[0]; }"),
    ("fnptr-result", "c", "static int helper_fr(int x) { return x; }\nstatic inline int (*pick(int k))(int) { (void)k; return helper_fr; }"),
    ("fnptr-param-named", "c", "static inline int call2(int (*cb)(int a, char b), int v) { return cb(v, 'x'); }"),
    ("const-volatile", "c", "static inline int cv(const volatile int *p, volatile char c) { return *p + c; }"),
    ("restrict", "c", "static inline int rs(int *restrict a, const char *restrict b) { return *a + *b; }"),
    ("anon-struct-param", "c", "typedef struct { int a; } anon_t;\nstatic inline int an(anon_t s) { return s.a; }"),
    ("enum-param", "c", "enum color { RED, GREEN };\nstatic inline enum color next(enum color c) { return c == RED ? GREEN : RED; }"),
    ("keyword-name", "c", "static inline int match(int type) { return type; }"),
    ("keyword-param", "c", "static inline int kw(int fn, int impl, int self) { return fn + impl + self; }"),
    ("noreturn", "c", "static inline _Noreturn void die(int c) { for (;;) { (void)c; } }"),
    ("void-ptr-ptr", "c", "static inline void *vp(void **p, const void *const *q) { (void)q; return *p; }"),
    ("bool", "c", "static inline _Bool nz(_Bool b, int x) { return b && x; }"),
    ("char16", "cpp", "static inline int c16(char16_t c, wchar_t w) { return c + w; }"),
    ("reference", "cpp", "static inline int byref(int &r, const double &d) { return r + (int)d; }"),
    ("cpp-bool-enum", "cpp", "enum class E : short { A, B };\nstatic inline bool is_a(E e) { return e == E::A; }"),
    ("cpp-namespace", "cpp", "namespace ns { static inline int inner(int x) { return x * 2; } }"),
]


def odd_part(ck, only=None):
    """One static function of an unusual type class per header (next to a plain one), through the CLI. Refusing the input with an
    error is consistent; producing bindings is consistent only if every declared `<name><suffix>` symbol is defined by the emitted
    wrapper source, which must compile. Also: --prefix-link-name together with wrappers."""
    import subprocess
    wd = os.path.join(ck.wd, "odd")
    os.makedirs(wd, exist_ok=True)
    rows = [("default", []), ("prefix-link-name", ["--prefix-link-name", "pfx_"])]

    def one(job):
        (name, lang, src), (rname, rflags) = job
        ext = "h" if lang == "c" else "hpp"
        d = os.path.join(wd, f"{name}_{rname}")
        os.makedirs(d, exist_ok=True)
        hp = os.path.join(d, f"odd.{ext}")
        open(hp, "w").write("#pragma once\nstatic inline int plain_ok(int x) { return x + 1; }\n" + src + "\n")
        w = os.path.join(d, "w")
        cl = ["--", "-x", "c++", "-std=c++14"] if lang == "cpp" else []
        p = subprocess.run([common.VDRIVER, "gen-one"] if False else [common.CLI, hp, "--experimental", "--wrap-static-fns", "--wrap-static-fns-path", w, "--no-layout-tests", "-o", os.path.join(d, "b.rs")] + rflags + cl,
                           env=common.ENV, stdout=subprocess.PIPE, stderr=subprocess.PIPE, timeout=60)
        if p.returncode != 0:
            crashed = p.returncode < 0 or p.returncode == 101 or b"panicked" in p.stderr
            return job, ("panic" if crashed else "refused"), p.stderr.decode(errors="replace")[-200:]
        text = open(os.path.join(d, "b.rs")).read()
        links = set(re.findall(r'link_name\s*=\s*"(?:\\u\{1\})?([^"]+)"', text))
        decl = set(re.findall(r"pub fn (\w+)\s*\(", text))
        wsrc = w + (".c" if lang == "c" else ".cpp")
        if not os.path.exists(wsrc):
            return job, ("dangling" if decl else "nothing"), f"bindings declare {sorted(decl)} but no wrapper source was written"
        rc, _, err = common.clang((["-x", "c++", "-std=c++14"] if lang == "cpp" else ["-std=gnu11"]) + ["-w", "-I", d, "-c", wsrc, "-o", os.path.join(d, "w.o")], cwd=d)
        if rc != 0:
            m = re.search(r"error: (.*)", err)
            return job, "wrapper-does-not-compile", (m.group(1) if m else err[:200])
        defined = nm_defined(os.path.join(d, "w.o"))
        # symbols the bindings expect: link_name when present, the Rust name otherwise
        expected = set(links) | {n for n in decl if not any(l.startswith(n) or n in l for l in links)}
        missing = sorted(x for x in expected if x not in defined)
        if missing:
            return job, "dangling", f"bindings refer to symbols the wrapper object does not define: {missing} (defined: {sorted(defined)})"
        return job, "ok", ""

    jobs = [(f, r) for f in ODD_FUNCS for r in rows if not only or (only.get("odd") == f[0] and only.get("row") == r[0])]
    refused = 0
    for ((name, lang, src), (rname, _)), verdict, why in common.pmap(one, jobs):
        ck.count()
        ck.nontriv(("odd", name, rname))
        if verdict == "refused":
            refused += 1
        elif verdict not in ("ok", "nothing"):
            ck.violation(f"odd-type {name} row={rname} {verdict}", {"odd": name, "row": rname, "why": f"`{src.splitlines()[-1]}`: {why}"})
    ck.extra["odd_type_functions"] = len(jobs)
    ck.extra["odd_type_inputs_refused_with_an_error"] = refused


FOREIGN_TARGETS = [("x86_64-apple-darwin", "_"), ("aarch64-apple-darwin", "_"), ("aarch64-unknown-linux-gnu", ""), ("i686-unknown-linux-gnu", ""), ("powerpc64-unknown-linux-gnu", "")]
FOREIGN_H = ("#pragma once\nstruct P { int a; char b; };\nstatic inline int add(int x, int y) { return x + y; }\nstatic int twice(int x) { return 2 * x; }\n"
             "static inline struct P mk(int a) { struct P p = { a, 1 }; return p; }\nstatic inline void sink(const struct P *p, double d) { (void)p; (void)d; }\nstatic inline unsigned long long wide(unsigned long long a, long b, unsigned long c, long long d) { return a + (unsigned long long)(b + (long)c + d); }\n"
             "static inline long double ld(long double x, unsigned short s, signed char c) { return x + s + c; }\nint external_fn(int);\n")


def foreign_part(ck, only=None):
    """Wrappers for OTHER target triples (object formats that decorate C symbols), nothing executed: for every target the wrapper
    source is compiled by `clang --target=T -c`; every static function that has a binding must have exactly one external wrapper
    symbol, and the symbol the binding refers to on T (its link_name, literal after a 0x01 byte, otherwise with T's global
    prefix) must be that symbol."""
    wd = os.path.join(ck.wd, "foreign")
    os.makedirs(wd, exist_ok=True)
    statics = ["add", "twice", "mk", "sink", "wide", "ld"]

    def one(job):
        (t, prefix), suffix = job
        d = os.path.join(wd, f"{t}_{'suf' if suffix else 'def'}")
        os.makedirs(d, exist_ok=True)
        hp = os.path.join(d, "fw.h")
        open(hp, "w").write(FOREIGN_H)
        w = os.path.join(d, "w")
        r = common.run_jobs([{"id": "x", "args": [hp, "--experimental", "--wrap-static-fns", "--wrap-static-fns-path", w, "--no-layout-tests", "--formatter", "none"]
                              + (["--wrap-static-fns-suffix", suffix] if suffix else []) + ["--", f"--target={t}"], "inventory": True}], d, threads=1)["x"]
        if r["status"] != "ok":
            return job, "generation-failed", str(r)[:200]
        suf = suffix or "__extern"
        refs = {}
        for it in r["inventory"]["items"]:
            if it["kind"] == "foreign_mod":
                for fi in it["items"]:
                    ln = fi.get("link_name")
                    refs[fi["name"]] = ln[1:] if ln and ln.startswith("\x01") else prefix + (ln or fi["name"])
        bound = [f for f in statics if f in refs]
        if not os.path.exists(w + ".c"):
            return job, ("dangling" if bound else "no-bindings"), f"bindings declare {bound} but no wrapper source was written"
        # every wrapper must have exactly the type of the function it wraps ON THAT TARGET (widths of long / long long differ)
        wc = os.path.join(d, "w_checked.c")
        asserts = "".join(f'_Static_assert(__builtin_types_compatible_p(__typeof__(&{f}{suf}), __typeof__(&{f})), "{f}: wrapper and function types differ");\n' for f in statics if f in refs)
        open(wc, "w").write(open(w + ".c").read() + "\n" + asserts)
        rc, _, err = common.clang(["-std=gnu11", "-w", f"--target={t}", "-c", wc, "-o", os.path.join(d, "w.o")], cwd=d)
        if rc != 0:
            return job, "wrapper-does-not-compile", " ".join(re.findall(r"error: (.*)", err)[:2])[:300] or err[:200]
        nm = common.sh(["llvm-nm", "--defined-only", "-g", os.path.join(d, "w.o")]).stdout.decode()
        defined = {l.split()[-1] for l in nm.splitlines() if l.strip()}
        probs = []
        for f in statics:
            want = prefix + f + suf
            if f not in refs:
                probs.append(f"static function {f} has no binding")
            elif refs[f] != want:
                probs.append(f"binding of {f} refers to `{refs[f]}` on {t}; its wrapper is `{want}`")
            if want not in defined:
                probs.append(f"wrapper symbol `{want}` is not defined by the wrapper object (defined: {sorted(defined)})")
        if refs.get("external_fn") != prefix + "external_fn":
            probs.append(f"external_fn refers to `{refs.get('external_fn')}`")
        return job, ("mismatch" if probs else "ok"), "; ".join(probs)[:600]

    jobs = [(tp, suf) for tp in FOREIGN_TARGETS for suf in (None, "_w") if not only or only.get("foreign") == f"{tp[0]}|{suf}"]
    for ((t, prefix), suf), verdict, why in common.pmap(one, jobs, threads=4):
        ck.count()
        ck.nontriv(("foreign", t, suf))
        if verdict != "ok":
            ck.violation(f"foreign-target {t} suffix={suf} {verdict}", {"foreign": f"{t}|{suf}", "why": why})
    ck.extra["foreign_target_wrapper_runs"] = len(jobs)


def in_process_history_part(ck, only=None):
    """Two and three generations in ONE process (what a build script with several configurations does), each with its own wrapper
    path, whose headers define static functions of the same names: every generation's wrapper source defines every wrapper its
    own bindings name."""
    wd = os.path.join(ck.wd, "inproc")
    os.makedirs(wd, exist_ok=True)
    hdrs = {"first.h": "static inline int add(int x, int y) { return x + y; }\nstatic inline int only_first(int x) { return x; }\n",
            "second.h": "static inline int add(int x, int y) { return x + y + 1; }\nstatic inline long only_second(long x) { return x; }\n",
            "third.h": "static inline long add(long x) { return x; }\n"}
    for n, t in hdrs.items():
        open(os.path.join(wd, n), "w").write(t)
    import itertools
    seqs = [p for k in (2, 3) for p in itertools.permutations(sorted(hdrs), k)] + [("first.h", "first.h"), ("third.h", "third.h", "first.h")]
    jobs = []
    for si, seq in enumerate(seqs):
        jj = []
        for k, h in enumerate(seq):
            w = os.path.join(wd, f"w_{si}_{k}")
            jj.append({"args": [os.path.join(wd, h), "--experimental", "--wrap-static-fns", "--wrap-static-fns-path", w, "--no-layout-tests", "--formatter", "none"],
                       "side_files": [w + ".c"], "keep_side": True})
        for thr in (False, True):
            jobs.append({"id": f"{si}|{int(thr)}", "mode": "history", "jobs": jj, "fresh": True, "thread_per_generation": thr, "timeout": 120})
    res = common.run_jobs(jobs, wd, timeout=120)
    for jid, r in res.items():
        si, thr = jid.split("|")
        seq = seqs[int(si)]
        ck.count()
        ck.nontriv(("inproc", jid))
        if r["status"] != "ok":
            ck.violation(f"in-process history {list(seq)} threads={thr} {r['status']}", {"inproc": jid, "why": str(r)[:200]})
            continue
        for k, (h, o) in enumerate(zip(seq, r["outs"])):
            if o.get("status") != "ok":
                ck.violation(f"in-process history {list(seq)} threads={thr} generation={k} {o.get('status')}", {"inproc": jid, "why": str(o)[:200]})
                break
            named = set(re.findall(r'link_name\s*=\s*"(?:\\u\{1\})?([^"]+)"', o["text"]))
            wsrc = "".join((o.get("side") or {}).values())
            missing = sorted(n for n in named if not re.search(rf"\b{re.escape(n)}\s*\(", wsrc))
            if missing or not named:
                ck.violation(f"in-process history {list(seq)} threads={thr} generation={k}", {"inproc": jid, "why": f"generation #{k} ({h}): bindings name {sorted(named)}, "
                             f"its wrapper source does not define {missing}: {wsrc[:200]!r}"})
                break
    ck.extra["in_process_histories"] = len(jobs)


def rerun_part(ck, only=None):
    """Histories on ONE wrapper path: generate for a header, edit the header (fewer / other / more functions), generate again.
    The wrapper source on disk must be the one of the last generation (compiles against the current header, nm == bindings)."""
    import subprocess
    wd = os.path.join(ck.wd, "rerun")
    os.makedirs(wd, exist_ok=True)
    V = {"three": "struct pt { int x, y; };\nstatic inline int sum_pt(struct pt p) { return p.x + p.y; }\nstatic inline int bump(int v) { return v + 1; }\nstatic inline int twice(int v) { return 2 * v; }\n",
         "one": "static inline int twice(int v) { return 2 * v; }\n",
         "other": "static inline long other_fn(long a, long b) { return a - b; }\n",
         "none": "int not_static(int);\n"}
    hist = [("three", "one"), ("three", "other"), ("one", "three"), ("three", "none"), ("three", "one", "three"), ("other", "one")]
    for h in hist:
        jid = "->".join(h)
        if only and only.get("rerun") != jid:
            continue
        ck.count()
        ck.nontriv(("rerun", jid))
        d = os.path.join(wd, jid.replace("->", "_"))
        os.makedirs(d, exist_ok=True)
        hp, w = os.path.join(d, "api.h"), os.path.join(d, "w")
        if os.path.exists(w + ".c"):
            os.remove(w + ".c")
        bad = None
        for step in h:
            open(hp, "w").write("#pragma once\n" + V[step])
            p = subprocess.run([common.CLI, hp, "--experimental", "--wrap-static-fns", "--wrap-static-fns-path", w, "--no-layout-tests", "-o", os.path.join(d, "b.rs")],
                               env=common.ENV, stdout=subprocess.PIPE, stderr=subprocess.PIPE, timeout=60)
            if p.returncode != 0:
                bad = f"generation {step} failed: {p.stderr.decode(errors='replace')[-200:]}"
                break
        if bad is None:
            text = open(os.path.join(d, "b.rs")).read()
            links = set(re.findall(r'link_name\s*=\s*"([^"]+)"', text))
            if h[-1] == "none":
                pass  # nothing is wrapped any more; a stale file from the earlier generation is not referenced by any binding
            else:
                rc, _, err = common.clang(["-std=gnu11", "-w", "-I", d, "-c", w + ".c", "-o", os.path.join(d, "w.o")], cwd=d)
                if rc != 0:
                    m = re.search(r"error: (.*)", err)
                    bad = "the wrapper source left on disk does not compile against the current header: " + (m.group(1) if m else err[:200])
                else:
                    defined = nm_defined(os.path.join(d, "w.o"))
                    if defined != links:
                        bad = f"wrapper object defines {sorted(defined)} but the bindings of the last generation name {sorted(links)}"
        if bad:
            ck.violation(f"rerun history={jid}", {"rerun": jid, "why": bad})
    # the header stays UNTOUCHED (same contents, same mtime) while an option that shapes the wrappers changes between the runs
    optsteps = [("suffix-one", ["--wrap-static-fns-suffix", "__one"]), ("suffix-two", ["--wrap-static-fns-suffix", "__two"]), ("blocklist-bump", ["--blocklist-function", "bump"]),
                ("allowlist-twice", ["--allowlist-function", "twice"]), ("define", ["--", "-DEXTRA_FN"]), ("plain", [])]
    hdr = "#pragma once\n" + V["three"] + "#ifdef EXTRA_FN\nstatic inline int extra_fn(int v) { return v - 1; }\n#endif\n"
    import itertools as _it
    for a, b in _it.permutations(optsteps, 2):
        jid = f"options:{a[0]}->{b[0]}"
        if only and only.get("rerun") != jid:
            continue
        ck.count()
        ck.nontriv(("rerun", jid))
        d = os.path.join(wd, jid.replace("->", "_").replace(":", "_"))
        os.makedirs(d, exist_ok=True)
        hp, w = os.path.join(d, "api.h"), os.path.join(d, "w")
        if os.path.exists(w + ".c"):
            os.remove(w + ".c")
        open(hp, "w").write(hdr)
        os.utime(hp, (1_600_000_000, 1_600_000_000))   # older than anything written from now on
        bad = None
        for name, fl in (a, b):
            pre = [x for x in fl if "--" not in fl or fl.index(x) < fl.index("--")]
            post = fl[fl.index("--"):] if "--" in fl else []
            p = subprocess.run([common.CLI, hp, "--experimental", "--wrap-static-fns", "--wrap-static-fns-path", w, "--no-layout-tests", "-o", os.path.join(d, "b.rs")] + pre + post,
                               env=common.ENV, stdout=subprocess.PIPE, stderr=subprocess.PIPE, timeout=60)
            if p.returncode != 0:
                bad = f"generation {name} failed: {p.stderr.decode(errors='replace')[-200:]}"
                break
        if bad is None:
            links = set(re.findall(r'link_name\s*=\s*"([^"]+)"', open(os.path.join(d, "b.rs")).read()))
            rc, _, err = common.clang(["-std=gnu11", "-w", "-I", d, "-c", w + ".c", "-o", os.path.join(d, "w.o")] + (["-DEXTRA_FN"] if b[0] == "define" else []), cwd=d)
            if rc != 0:
                bad = "the wrapper source left on disk does not compile: " + err[:200]
            else:
                defined = nm_defined(os.path.join(d, "w.o"))
                if defined != links:
                    bad = f"wrapper object defines {sorted(defined)} but the bindings of the last generation name {sorted(links)}"
        if bad:
            ck.violation(f"rerun history={jid}", {"rerun": jid, "why": bad})


def replay(ck, case, detail):
    n0 = len(ck.violations)
    run(ck, only=detail)
    return not any(c == case for c, _ in ck.violations[n0:])
