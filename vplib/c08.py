"""C08 - traits derived exactly when the rules allow; hand-written impls act like derives.

Explored: records with <= 2 members over a rule-hitting alphabet (ints, floats, pointers, function pointers with
12 / 13 parameters, arrays of 32 / 33 / 0 elements, enums, bit-field units of 32 / 33 bytes, nested records,
incomplete arrays) x {struct, union} x {plain, packed, aligned(64)} x ALL 2^8 combinations of the derive options
(+ impl-debug / impl-partialeq on top of each), presence observed on the syn inventory against an independent
three-valued specification (MUST-NOT / MUST-HAVE / FREE) computed from the generator's own description of the
record; soundness through rustc; behaviour of the hand-written impls by executing them.
"""
import itertools
import os

from . import common, gen_c, probes
from .common import Check

LEVEL = "exploration"
BATCH = 400
ALPHABET = ["char", "int", "llong", "bool", "float", "double", "ptr", "fnptr12", "fnptr13", "arr2i", "arr32", "arr33", "zla", "enum",
            "bfA", "bf32B", "bf33B", "nestplain", "nestfloat", "ptrarr", "anonu", "fntd2", "fntd13", "pfntd13", "arr2x40", "arrfn13", "arrarr33",
            "fnv12", "fnv13", "fnv1"]
INT_ATOMS = {"char", "uchar", "short", "int", "uint", "llong", "bool", "td", "arr2i", "arr3c", "arr32", "nestplain", "bfA"}
FLOAT_ATOMS = {"float", "double", "nestfloat"}
PTR_ATOMS = {"ptr", "cptr", "fnptr12", "ptrarr", "fntd2", "fnv12", "fnv1"}
FN13 = {"fnptr13", "fntd13", "pfntd13", "arrfn13", "fnv13"}
LARGE = {"arr33", "arr2x40", "arrarr33"}   # element count (or an element's element count) past the 32 limit: only Default is affected on current targets
TRAITS = ["Copy", "Clone", "Debug", "Default", "Hash", "PartialEq", "PartialOrd", "Eq", "Ord"]
# option bits: (name, flag when bit set, trait it governs, default-on?)
OPTS = [("copy", "--no-derive-copy", "Copy", True), ("debug", "--no-derive-debug", "Debug", True), ("default", "--with-derive-default", "Default", False),
        ("hash", "--with-derive-hash", "Hash", False), ("partialeq", "--with-derive-partialeq", "PartialEq", False),
        ("partialord", "--with-derive-partialord", "PartialOrd", False), ("eq", "--with-derive-eq", "Eq", False), ("ord", "--with-derive-ord", "Ord", False)]


def enabled(mask):
    """trait -> requested by the options encoded in mask (bit set = non-default value of that option)."""
    en = {}
    for i, (name, flag, trait, default_on) in enumerate(OPTS):
        bit = bool(mask >> i & 1)
        en[trait] = (not bit) if default_on else bit
    en["Clone"] = en["Copy"]
    # documented implications of the builder methods / flags: deriving Eq turns PartialEq on, deriving Ord turns PartialOrd on
    if en["Eq"]:
        en["PartialEq"] = True
    if en["Ord"]:
        en["PartialOrd"] = True
    # Eq needs PartialEq and Ord needs PartialOrd+Eq to be derivable at all: outside those the request is FREE
    return en


def flags_of(mask):
    return [flag for i, (_, flag, _, _) in enumerate(OPTS) if mask >> i & 1]


def expectation(c, trait, en):
    """'must-not' | 'must-have' | 'free' for trait on record c under enabled-set en (independent of bindgen's IR)."""
    if not en.get(trait):
        return "must-not"
    atoms = set(c.atoms)
    if c.kind == "union":
        # emitted as a Rust union whenever every member is Copy (no incomplete array here): nothing but Copy/Clone
        if not (atoms & {"zla"}):
            return "must-have" if trait in ("Copy", "Clone") and c.rattr == "plain" and atoms <= (INT_ATOMS | FLOAT_ATOMS | PTR_ATOMS | {"enum"}) - {"bfA"} else ("free" if trait in ("Copy", "Clone") else "must-not")
        return "free"
    if trait in ("Eq", "Ord", "Hash") and atoms & FLOAT_ATOMS:
        return "must-not"
    # function pointers are emitted as Option<fn>, whose Default is None: only raw (data) pointers rule Default out
    if trait == "Default" and (atoms & {"ptr", "cptr", "ptrarr"} or atoms & LARGE):
        return "must-not"
    if trait in ("Debug", "Hash", "PartialEq", "PartialOrd") and atoms & FN13:
        return "must-not"
    # dependencies between traits make a request underivable even for plain data: leave those free
    if trait == "Eq" and not en.get("PartialEq"):
        return "free"
    if trait == "Ord" and not (en.get("PartialOrd") and en.get("Eq") and en.get("PartialEq")):
        return "free"
    if trait == "PartialOrd" and not en.get("PartialEq"):
        return "free"
    if c.rattr != "plain" or c.mattr:
        return "free"
    plain = atoms <= INT_ATOMS
    if plain:
        return "must-have"
    if atoms <= INT_ATOMS | FLOAT_ATOMS and trait in ("Copy", "Clone", "Debug", "Default", "PartialEq", "PartialOrd"):
        return "must-have"
    if atoms <= INT_ATOMS | PTR_ATOMS and (trait != "Default" or not atoms & {"ptr", "cptr", "ptrarr"}):
        return "must-have"
    if atoms <= INT_ATOMS | PTR_ATOMS | FN13 and trait in ("Copy", "Clone", "Default") and not atoms & {"ptr", "cptr", "ptrarr"}:
        return "must-have"
    return "free"


def new_check(tier):
    return Check("C08", tier, LEVEL,
                 "cases = records (<=2 members over a 21-atom rule-hitting alphabet x struct/union x {plain, packed, aligned(64)}) x all 2^8 "
                 "derive-option combinations x {-, impl-debug+impl-partialeq}; each (record, option set, trait) triple compared with a "
                 "three-valued specification; non-trivial = triples whose expectation is must-have or must-not for an enabled trait")


def derive_view(inv):
    """name -> (derive list, set of traits implemented by hand)"""
    out = {}
    impls = {}

    def walk(items):
        for it in items:
            if it["kind"] == "mod":
                walk(it["items"])
            elif it["kind"] in ("struct", "union"):
                out[it["name"]] = (it["derives"], it["kind"])
            elif it["kind"] == "impl" and it.get("trait"):
                t = it["trait"].split("::")[-1]
                impls.setdefault(it["self_ty"], set()).add(t)
    walk(inv["items"])
    return out, impls


def run(ck, only=None):
    wd = ck.wd
    cases = gen_c.enumerate_records(2, atoms=ALPHABET, rattrs=["plain", "packed", "al64"])
    if ck.tier == "quick":
        pick = {k for i, k in enumerate(ALPHABET) if (i + ck.seed) % 4 == 0}
        cases = [c for c in cases if len(c.atoms) == 1 or c.atoms[0] in pick]
        ck.cap("quick tier: 2-member records whose first member is in a rotated quarter of the alphabet; a rotated eighth of the 2^8 option "
               "combinations (always including none / all); thorough: everything")
    # several bit-field units in one record, the large one not first: every unit counts for the 32-byte rule
    multi = [c for c in gen_c.enumerate_records(3, atoms=["bfA", "int", "bf32B", "bf33B", "char"], rattrs=["plain"], kinds=("struct",))
             if len(c.atoms) == 3 and c.atoms[1] in ("int", "char") and c.atoms[0].startswith("bf") and c.atoms[2].startswith("bf")]
    for k, c in enumerate(multi):
        c.tag = f"K{800000 + k}"
    cases = cases + multi
    if only:
        cases = [c for c in cases if c.cid == only.get("cid")]
    batches = [(f"b{i // BATCH}", cases[i:i + BATCH]) for i in range(0, len(cases), BATCH)]
    for name, cs in batches:
        open(os.path.join(wd, f"{name}.h"), "w").write("\n".join(c.source() for c in cs) + "\n")
    masks = list(range(256))
    if ck.tier == "quick":
        masks = sorted({m for m in masks if (m + ck.seed) % 8 == 0} | {0, 255, 0b11111100, 0b00000011})
    variants = [(m, imp) for m in masks for imp in (False, True)]
    if only:
        variants = [(only["mask"], only["impl"])]
    jobs = []
    for m, imp in variants:
        fl = flags_of(m) + (["--impl-debug", "--impl-partialeq"] if imp else [])
        for name, cs in batches:
            jobs.append({"id": f"{m}|{int(imp)}|{name}", "args": [os.path.join(wd, f"{name}.h"), "--formatter", "none", "--no-layout-tests"] + fl,
                         "inventory": True, "text": False, "timeout": 120})
    res = common.run_jobs(jobs, wd, timeout=120)
    for m, imp in variants:
        en = enabled(m)
        for name, cs in batches:
            r = res[f"{m}|{int(imp)}|{name}"]
            if r["status"] != "ok":
                raise common.Machinery(f"C08 generation failed for batch {name} mask {m}: {str(r)[:300]}")
            dv, impls = derive_view(r["inventory"])
            for c in cs:
                ck.count()
                if c.tag not in dv:
                    continue
                derives, kind = dv[c.tag]
                hand = impls.get(c.tag, set())
                for t in TRAITS:
                    exp = expectation(c, t, en)
                    has = t in derives
                    if exp != "free":
                        ck.nontriv((c.cid, m, imp, t))
                    det = {"cid": c.cid, "mask": m, "impl": imp, "trait": t, "source": c.source()}
                    base = f"{c.cid} opts={'+'.join(n for i, (n, _, _, _) in enumerate(OPTS) if m >> i & 1) or 'default'}{'+impl' if imp else ''} trait={t}"
                    from .c01 import structure_class
                    if exp == "must-not" and (has or (t in hand and not en.get(t))):
                        ck.violation(base + " derived-against-rule", dict(det, predicate=f"against-rule|{t}|{structure_class(c)}|{'+'.join(sorted(set(c.atoms)))}",
                                     why=f"{t} is {'derived' if has else 'implemented'} although the rules forbid it (derives={derives}, impls={sorted(hand)})"))
                    elif exp == "must-have" and not has:
                        ck.violation(base + " withheld", dict(det, predicate=f"withheld|{t}|{structure_class(c)}|{'+'.join(sorted(set(c.atoms)))}",
                                     why=f"{t} is withheld from a plain-data record that meets the rules (derives={derives}, impls={sorted(hand)})"))
                # hand-written impls where the code documents them
                if en.get("Default") and "Default" not in derives and "Default" not in hand and kind == "struct" and c.rattr == "plain":
                    ck.violation(f"{c.cid} mask={m} impl={imp} no-default-impl", {"cid": c.cid, "mask": m, "impl": imp, "trait": "Default",
                                 "predicate": f"no-default|{structure_class(c)}|{'+'.join(sorted(set(c.atoms)))}",
                                 "why": f"derive-default is on, Default is not derived and no `impl Default` is written (derives={derives})"})
                if "Clone" in derives and "Copy" not in derives:
                    ck.violation(f"{c.cid} mask={m} impl={imp} clone-without-copy", {"cid": c.cid, "mask": m, "impl": imp, "trait": "Clone",
                                 "predicate": "clone-without-copy", "why": f"Clone derived without Copy: {derives}"})
    ck.sample({"record": cases[len(cases) // 2].cid if cases else None, "options": flags_of(0b10110100)})
    ck.extra["records"] = len(cases)
    ck.extra["option_combinations"] = len(variants)
    if not only or only.get("sound"):
        soundness(ck, cases, only)
    if not only or only.get("behaviour"):
        behaviour(ck, cases)
    if not only or only.get("cxx"):
        cxx_rules(ck)
        excluded_types(ck)
        non_recursive(ck)
    ck.assume("the specification is deliberately three-valued: anything the property does not constrain (non-plain attributes, mixed "
              "members, trait dependencies such as Eq without PartialEq) is FREE; enum members are integers under the default enum style")


SOUND_MASKS = [("all-derives", 0b11111100, False), ("all-derives+impl", 0b11111100, True), ("all-derives+no-copy", 0b11111101, False),
               ("no-copy", 0b00000001, False), ("no-copy+no-debug+default", 0b00000111, False), ("defaults", 0, False)]


def soundness(ck, cases, only=None):
    """A derive that a constituent cannot support does not compile: rustc on the complete output of every plain record under the
    option sets that request the most (and under --no-derive-copy, which changes how unions are emitted)."""
    sel = [c for c in cases if c.rattr == "plain" and not c.mattr]
    if only:
        sel = [c for c in sel if c.cid == only.get("cid")]
    for vname, mask, imp in SOUND_MASKS:
        if only and only.get("sound") != vname:
            continue
        fl = flags_of(mask) + (["--impl-debug", "--impl-partialeq"] if imp else []) + ["--no-layout-tests"]
        batches = [(f"s{i // BATCH}", sel[i:i + BATCH]) for i in range(0, len(sel), BATCH)]
        res, _ = probes.compile_batches(batches, os.path.join(ck.wd, "sound_" + vname.replace("+", "_")), fl, contexts=False, prelude="#![allow(warnings)]\n")
        for c in sel:
            ck.count()
            ck.nontriv(("sound", c.cid, vname))
            msgs = res.get(c.tag)
            if msgs:
                # only trait errors are this property's business (missing bound, Copy on a non-Copy field, non-Copy union member,
                # operator on a member without the trait); every other rejection belongs to C01
                trait_codes = {"E0277", "E0204", "E0740", "E0369", "E0184", "E0599"}
                if not ({m.split()[0] for m in msgs} & trait_codes):
                    ck.extra["rejections_left_to_C01"] = ck.extra.get("rejections_left_to_C01", 0) + 1
                    continue
                codes = ",".join(sorted({m.split()[0] for m in msgs if m.startswith("E")})) or "error"
                from .c01 import structure_class
                ck.violation(f"{c.cid} opts={vname} does-not-compile {codes}",
                             {"cid": c.cid, "sound": vname, "predicate": f"unsound|{codes}|{structure_class(c)}|{vname}", "source": c.source(),
                              "why": "rustc rejects the derives of this record: " + " | ".join(msgs)[:500]})


CXX_RULES_HPP = r"""
template <typename T> struct W { T v; float w; };
struct HW { W<int> a; int k; };
struct HW2 { HW h[2]; };
typedef W<char> WC;
struct HWC { WC c; };
struct FB { double d; };
struct FM : FB { int m; };
struct FL : FM { char c; };
struct Dt { ~Dt(); int x; };
struct HoldsDt { Dt d; int y; };
struct ArrDt { Dt d[2]; };
struct Vt { virtual void f(); int x; };
struct HoldsVt { Vt v; };
struct DerVt : Vt { int z; };
struct Ref { int &r; };
struct PlainBase { int a; short b; };
struct PlainDer : PlainBase { int c; };
struct PlainHolds { PlainDer d; PlainBase arr[3]; };
template <typename T> struct Box { T t; };
struct BoxInt { Box<int> b; Box<Box<short> > bb; };
struct BoxFloat { Box<float> b; };
"""
# (type, trait) pairs that the rules forbid / require with every derive option on
CXX_MUST_NOT = [("HW", "Eq"), ("HW", "Ord"), ("HW", "Hash"), ("HW2", "Eq"), ("HW2", "Hash"), ("HWC", "Eq"), ("HWC", "Ord"),
                ("FM", "Eq"), ("FM", "Ord"), ("FM", "Hash"), ("FL", "Eq"), ("FL", "Ord"), ("FL", "Hash"),
                ("Dt", "Copy"), ("HoldsDt", "Copy"), ("ArrDt", "Copy"), ("Vt", "Default"), ("HoldsVt", "Default"), ("DerVt", "Default"),
                ("Ref", "Default"), ("BoxFloat", "Eq"), ("BoxFloat", "Hash"), ("BoxFloat", "Ord")]
CXX_MUST_HAVE = [(t, tr) for t in ("PlainBase", "PlainDer", "PlainHolds", "BoxInt") for tr in TRAITS] + \
                [(t, tr) for t in ("FB", "FM", "FL", "HW", "BoxFloat") for tr in ("Copy", "Clone", "Debug", "Default", "PartialEq", "PartialOrd")]


def cxx_rules(ck):
    wd = os.path.join(ck.wd, "cxx")
    os.makedirs(wd, exist_ok=True)
    hp = os.path.join(wd, "rules.hpp")
    open(hp, "w").write(CXX_RULES_HPP)
    allon = [f for (_, f, _, d) in OPTS if not d]
    r = common.run_jobs([{"id": "x", "args": [hp, "--formatter", "none", "--no-layout-tests"] + allon + ["--", "-x", "c++", "-std=c++14"], "inventory": True, "text": False}], wd)["x"]
    common.guard(r["status"] == "ok", "C08 C++ rule header failed to generate: " + str(r)[:200])
    dv, impls = derive_view(r["inventory"])
    for t, tr in CXX_MUST_NOT:
        ck.count()
        ck.nontriv(("cxx", t, tr))
        # a hand-written Default (all-zero object) is what the rules prescribe where the derive is impossible
        if t in dv and (tr in dv[t][0] or (tr != "Default" and tr in impls.get(t, set()))):
            ck.violation(f"cxx-rules type={t} trait={tr} derived-against-rule", {"cxx": True, "why": f"{tr} is derived on {t} although a constituent cannot support it (derives={dv[t][0]})"})
    for t, tr in CXX_MUST_HAVE:
        ck.count()
        ck.nontriv(("cxx", t, tr))
        if t in dv and tr not in dv[t][0] and tr not in impls.get(t, set()):
            ck.violation(f"cxx-rules type={t} trait={tr} withheld", {"cxx": True, "why": f"{tr} is withheld from {t} although every constituent supports it (derives={dv[t][0]})"})


# user-excluded types: --no-copy / --no-debug / --no-default / --no-hash / --no-partialeq <regex> must keep the trait off the type
# whether it would be derived or written by hand; patterns address the type by its C++ path (global, namespaced, nested).
EXCL_HPP = r"""
struct Small { int a; short b; };
struct Big { int a; char big[40]; };            // Debug / Default / PartialEq of this one are written by hand when asked for
struct Ptr { int *p; int n; };                  // Default written by hand
namespace ns { struct Small { int a; short b; }; struct Big { int a; char big[40]; }; struct Ptr { int *p; int n; };
               namespace deep { struct Big { long l; double arr[33]; }; } }
struct Outer { struct Inner { int a; char big[40]; } in; int z; };
struct Ctl { int a; char big[40]; };            // control: never excluded
namespace ns { struct Ctl { int a; char big[40]; }; }
"""
EXCL_TYPES = [("Small", "Small", "Small"), ("Big", "Big", "Big"), ("Ptr", "Ptr", "Ptr"), ("ns::Small", "ns_Small", "Small"), ("ns::Big", "ns_Big", "Big"),
              ("ns::Ptr", "ns_Ptr", "Ptr"), ("ns::deep::Big", "ns_deep_Big", "Big"), ("Outer_Inner", "Outer_Inner", "Outer_Inner")]   # nested classes are addressed by their flattened name
EXCL_OPTS = [("--no-copy", ["Copy", "Clone"]), ("--no-debug", ["Debug"]), ("--no-default", ["Default"]), ("--no-hash", ["Hash"]), ("--no-partialeq", ["PartialEq"])]


def excluded_types(ck):
    wd = os.path.join(ck.wd, "excl")
    os.makedirs(wd, exist_ok=True)
    hp = os.path.join(wd, "excl.hpp")
    open(hp, "w").write(EXCL_HPP)
    base = ["--with-derive-default", "--with-derive-hash", "--with-derive-partialeq", "--impl-debug", "--impl-partialeq"]
    jobs, info = [], {}
    for path, flat, nsname in EXCL_TYPES:
        for opt, traits in EXCL_OPTS:
            for nsmode in (False, True):
                for form in ("exact", "regex"):
                    pat = path if form == "exact" else path.replace("::", "::").replace("Big", "B.g").replace("Small", "Sm.*l").replace("Ptr", "P[t]r").replace("Inner", "In+er")
                    jid = f"{path}|{opt}|{int(nsmode)}|{form}"
                    jobs.append({"id": jid, "args": [hp, "--formatter", "none", "--no-layout-tests"] + base + [opt, pat] + (["--enable-cxx-namespaces"] if nsmode else [])
                                 + ["--", "-x", "c++", "-std=c++14"], "inventory": True, "text": False})
                    info[jid] = (path, flat, nsname, opt, traits, nsmode)
    res = common.run_jobs(jobs, wd, timeout=60)

    def view(inv, nsmode):
        """rust path -> (derives, hand-written trait impls)"""
        out = {}

        def walk(items, prefix):
            for it in items:
                if it["kind"] == "mod":
                    walk(it["items"], prefix + [it["name"]])
                elif it["kind"] in ("struct", "union"):
                    out.setdefault("::".join(prefix + [it["name"]]), [set(), set()])[0].update(it["derives"])
                elif it["kind"] == "impl" and it.get("trait"):
                    out.setdefault("::".join(prefix + [it["self_ty"].split("::")[-1]]), [set(), set()])[1].add(it["trait"].split("::")[-1].split("<")[0])
        walk(inv["items"], [])
        return out
    for jid, (path, flat, nsname, opt, traits, nsmode) in info.items():
        r = res[jid]
        ck.count()
        common.guard(r["status"] == "ok", f"C08 exclusion header failed to generate for {jid}: {str(r)[:200]}")
        v = view(r["inventory"], nsmode)
        key = ("root::" + "::".join(path.split("::")[:-1] + [nsname])) if nsmode else flat
        ctl = "root::Ctl" if nsmode else "Ctl"
        if key not in v or ctl not in v:
            raise common.Machinery(f"C08 exclusion part: type {key} / {ctl} not found in the bindings of {jid} ({sorted(v)[:12]})")
        for tr in traits:
            ck.nontriv(("excl", jid, tr))
            if tr in v[key][0] or tr in v[key][1]:
                ck.violation(f"excluded type={path} option={opt} namespaces={nsmode} form={jid.split('|')[3]} trait={tr} present",
                             {"excl": True, "why": f"`{opt} {path}` was given, yet {key} has {tr} ({'derived' if tr in v[key][0] else 'written by hand'})"})
            # the control type (same shape, not matched) must keep the trait, derived or written by hand
            if tr not in v[ctl][0] and tr not in v[ctl][1]:
                ck.violation(f"excluded type={path} option={opt} namespaces={nsmode} control-lost trait={tr}",
                             {"excl": True, "why": f"`{opt} {path}` removed {tr} from the unrelated type {ctl}"})
    ck.extra["exclusion_runs"] = len(jobs)


NOREC_H = """struct sample { double _Complex z; int n; };
struct lanes { int v __attribute__((vector_size(16))); char tag; };
struct scalars { int a; float f; unsigned long u; };
typedef int myint; struct with_td { myint m; };
enum en { EN_A }; struct with_enum { enum en e; };
struct with_fp { int (*cb)(int); void *p; };
struct with_arr { short a[4]; char b[2][3]; };
"""


def non_recursive(ck):
    """Under --no-recursive-allowlist only what matches is emitted, but the member types the language itself provides (scalars,
    _Complex, vectors, arrays, pointers, function pointers) need no definition: a plain-data record keeps every trait it gets in
    the full bindings."""
    wd = os.path.join(ck.wd, "norec")
    os.makedirs(wd, exist_ok=True)
    hp = os.path.join(wd, "norec.h")
    open(hp, "w").write(NOREC_H)
    base = [hp, "--formatter", "none", "--no-layout-tests", "--with-derive-default", "--with-derive-hash", "--with-derive-partialeq", "--with-derive-partialord"]
    names = ["sample", "lanes", "scalars", "with_fp", "with_arr"]
    jobs = [{"id": "full", "args": base, "inventory": True, "text": False}]
    for n in names:
        jobs.append({"id": n, "args": base + ["--allowlist-type", n, "--no-recursive-allowlist"], "inventory": True, "text": False})
    jobs.append({"id": "all", "args": base + ["--allowlist-type", "|".join(names), "--no-recursive-allowlist"], "inventory": True, "text": False})
    res = common.run_jobs(jobs, wd, timeout=60)
    common.guard(res["full"]["status"] == "ok", "C08 no-recursive header failed to generate")
    full, _ = derive_view(res["full"]["inventory"])
    for jid, r in res.items():
        if jid == "full":
            continue
        ck.count()
        ck.nontriv(("norec", jid))
        if r["status"] != "ok":
            ck.violation(f"no-recursive-allowlist case={jid} generation-failed", {"norec": True, "why": str(r)[:200]})
            continue
        dv, impls = derive_view(r["inventory"])
        for n in (names if jid == "all" else [jid]):
            if n not in dv:
                ck.violation(f"no-recursive-allowlist case={jid} type={n} missing", {"norec": True, "why": f"{n} matches the allowlist but is not emitted"})
            elif set(dv[n][0]) != set(full[n][0]):
                ck.violation(f"no-recursive-allowlist case={jid} type={n} derives-differ", {"norec": True,
                             "why": f"{n} derives {sorted(dv[n][0])} under --no-recursive-allowlist and {sorted(full[n][0])} in the full bindings; every member type is provided by the language"})
    ck.extra["no_recursive_runs"] = len(jobs) - 1


BEHAVIOUR_RS = r'''
#![allow(warnings)]
mod b { include!("@B@"); }
use std::mem::{size_of, MaybeUninit};
fn bytes_of<T>(v: &T) -> Vec<u8> { unsafe { std::slice::from_raw_parts(v as *const T as *const u8, size_of::<T>()).to_vec() } }
fn main() {
@BODY@
}
'''


def behaviour(ck, cases):
    """Execute the hand-written impls: Default is the all-zero object, PartialEq agrees with member-wise equality, Debug does not panic."""
    wd = os.path.join(ck.wd, "beh")
    os.makedirs(wd, exist_ok=True)
    sel = [c for c in cases if c.kind == "struct" and c.rattr == "plain" and not (set(c.atoms) & {"zla", "anonu", "bf33B", "bf32B"})]
    sel = sel[:300] if ck.tier == "quick" else sel
    if not sel:
        return
    hp = os.path.join(wd, "beh.h")
    open(hp, "w").write("\n".join(c.source() for c in sel) + "\n")
    flags = ["--with-derive-default", "--with-derive-partialeq", "--impl-debug", "--impl-partialeq", "--no-layout-tests"]
    r = common.run_jobs([{"id": "beh", "args": [hp, "--formatter", "prettyplease"] + flags, "inventory": True}], wd, timeout=120)["beh"]
    common.guard(r["status"] == "ok", "C08 behaviour batch failed to generate")
    bp = os.path.join(wd, "beh_bindings.rs")
    open(bp, "w").write(r["text"])
    dv, impls = derive_view(r["inventory"])
    idx = probes.index_inventory(r["inventory"])
    body = []
    checked = 0
    for c in sel:
        if c.tag not in dv:
            continue
        derives, _ = dv[c.tag]
        hand = impls.get(c.tag, set())
        lines = [f"  {{ type X = b::{c.tag};"]
        if "Default" in hand or "Default" in derives:
            lines.append(f'    let d: X = Default::default(); let z = bytes_of(&d); let nz = z.iter().filter(|b| **b != 0).count(); println!("DEF {c.tag} {{}} {{}}", nz, if {str("Default" in hand).lower()} {{ "hand" }} else {{ "derive" }});')
        if "PartialEq" in hand or "PartialEq" in derives:
            lines.append("    let a: X = unsafe { MaybeUninit::zeroed().assume_init() }; let mut b2: X = unsafe { MaybeUninit::zeroed().assume_init() };")
            lines.append(f'    println!("EQ0 {c.tag} {{}}", a == b2);')
            for f, kind in c.fields():
                path = probes.resolve_field(idx, c.tag, f)
                if path is None or kind not in ("sint", "uint", "float", "bool"):
                    continue
                acc = ".".join(path)
                val = "true" if kind == "bool" else ("1.5" if kind == "float" else "1")
                zero = "false" if kind == "bool" else ("0.0" if kind == "float" else "0")
                lines.append(f'    b2.{acc} = {val} as _; println!("NE {c.tag} {f} {{}}", a == b2); b2.{acc} = {zero} as _;'.replace("true as _", "true").replace("false as _", "false"))
        if "Debug" in hand or "Debug" in derives:
            lines.append(f'    let a: X = unsafe {{ MaybeUninit::zeroed().assume_init() }}; let s = format!("{{:?}}", a); println!("DBG {c.tag} {{}}", s.len());')
        lines.append("  }")
        body.append("\n".join(lines))
        checked += 1
    src = BEHAVIOUR_RS.replace("@B@", bp).replace("@BODY@", "\n".join(body))
    mp = os.path.join(wd, "beh.rs")
    open(mp, "w").write(src)
    ok, tags, msgs = probes.rustc_diagnose(mp, os.path.join(wd, "beh_exe"), r["text"], bp)
    if not ok:
        bt = probes.last_by_tag()
        bytag = {c.tag: c for c in sel}
        for t in sorted(tags):
            if t in bytag:
                c = bytag[t]
                from .c01 import structure_class
                ck.violation(f"{c.cid} behaviour rustc-rejects", {"cid": c.cid, "behaviour": True, "mask": 0, "impl": True,
                             "predicate": f"beh-rustc|{structure_class(c)}|{'+'.join(sorted(set(c.atoms)))}", "why": " | ".join(sorted(set(bt.get(t, msgs[:2]))))[:400]})
        return
    out = common.sh([os.path.join(wd, "beh_exe")], timeout=120)
    if out.returncode != 0:
        ck.violation("behaviour program crashed", {"behaviour": True, "cid": None, "mask": 0, "impl": True, "why": out.stderr.decode()[-400:]})
        return
    bytag = {c.tag: c for c in sel}
    for line in out.stdout.decode().splitlines():
        p = line.split()
        c = bytag.get(p[1])
        ck.count()
        if p[0] == "DEF" and p[2] != "0" and p[3] == "hand":  # a derived Default leaves padding unspecified; the hand-written one zeroes the whole object
            ck.violation(f"{c.cid} default-not-zero", {"cid": c.cid, "behaviour": True, "mask": 0, "impl": True, "why": f"Default::default() ({p[3]}) has {p[2]} non-zero bytes"})
        elif p[0] == "EQ0" and p[2] != "true":
            ck.violation(f"{c.cid} eq-identical-false", {"cid": c.cid, "behaviour": True, "mask": 0, "impl": True, "why": "== is false on two all-zero objects"})
        elif p[0] == "NE" and p[3] != "false":
            ck.violation(f"{c.cid} eq-ignores-member {p[2]}", {"cid": c.cid, "behaviour": True, "mask": 0, "impl": True, "why": f"== stays true when member {p[2]} differs"})
    ck.extra["behaviour_records_executed"] = checked


def replay(ck, case, detail):
    n0 = len(ck.violations)
    run(ck, only=detail)
    return not any(c == case for c, _ in ck.violations[n0:])
