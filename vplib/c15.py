"""C15 - formatter choice changes only whitespace; formatter failure is not fatal.

Fault enumeration over the child-process protocol of Bindings::write / format_tokens: scripted fake
formatters (fake_fmt/fake_fmt.c, behaviour = (stdin mode, stdout mode, termination)) x spawn faults x
bindings size {small, > 2 pipe buffers x many} x rustfmt configuration file {absent, present}, plus the
three real formatter settings. Oracle (harness/vdriver `fmtcheck`): write() returns Ok before the
watchdog, header comment and raw lines exactly once and first, token sequence equal to Formatter::None.
"""
import os
import stat

from . import common
from .common import Check

LEVEL = "fault_enumeration"

STDIN = ["close", "none", "half", "all", "slow", "stream", "shead", "allerr", "errall"]
STDOUT = ["nothing", "half", "full", "fullbad", "bad", "reformat"]
TERM = ["e0", "e1", "e2", "e3", "e101", "e255", "kill", "segv"]
RAW = ["// RAWLINE-ONE-7f3a", "use core::ffi::c_void as RawLineTwo9c1d;"]

SMALL = "struct S { int a; char b; };\nint f(struct S *s);\nextern int g;\n#define M 3\n"


def big_header(n):
    parts = []
    for i in range(n):
        parts.append(f"/** record {i}: \u65e5\u672c\u8a9e \u00e9\u00e8 \U0001F600  two  spaces,   three   spaces and a \"quoted\" word */\nstruct B{i} {{ int a{i}; double d{i}; unsigned f{i}:3; }}; int bf{i}(struct B{i} *p, int q, long r);"
                     f"\n#define STR{i} \"string literal {i} with  runs   of    spaces { 'x ' * (i % 7) }\"")
    return "\n".join(parts) + "\n"


def strings_header(n):
    """Bindings in which almost every space is INSIDE a string literal (long string macros): whatever is done to the text as text
    (wrapping, trimming, re-encoding) at any offset is overwhelmingly likely to land inside a literal and change a token."""
    words = " ".join(["w", "xx", "yyy", "z z", "tab\\there", "q\\\"uote"] * 40)
    return "\n".join(f'#define LONGSTR{i} "{i} {words}"' for i in range(n)) + "\n"


def trusted(sin, sout, term):
    if sin == "shead" and term in ("e0", "e3"):
        return True   # a truncated but well-formed answer with a success status: trusted by design, like "half"
    """The property excludes a formatter that reports success (exit 0, or the documented partial success 3)
    and returns well-formed (valid UTF-8) text: its output is trusted by design."""
    return term in ("e0", "e3") and sout not in ("fullbad", "bad")


def new_check(tier):
    return Check("C15", tier, LEVEL,
                 "fault tuples (stdin in close|none|half|all|slow) x (stdout in nothing|half|full|full+invalid-utf8|invalid|whitespace-"
                 "changed) x (exit 0/1/2/3/101/255, SIGKILL, SIGSEGV) + spawn faults (absent, directory, not executable, empty file) x "
                 "bindings size x rustfmt config; non-trivial = distinct (fault tuple, size, config) whose formatter did not simply succeed")


def run(ck, only=None):
    wd = ck.wd
    ffdir = os.path.join(wd, "ff")
    os.makedirs(ffdir, exist_ok=True)
    exe = os.path.join(ffdir, "fake_fmt")
    rc, _, err = common.clang(["-O1", "-o", exe, os.path.join(common.ROOT, "fake_fmt", "fake_fmt.c")])
    common.guard(rc == 0, "fake formatter does not build: " + err)
    small = os.path.join(wd, "small.h")
    open(small, "w").write(SMALL)
    big = os.path.join(wd, "big.h")
    nbig = 5000 if ck.tier == "thorough" else 600
    open(big, "w").write(big_header(nbig))
    # sizes on both sides of every buffer the protocol can meet: one pipe buffer (64 KiB), two, and 1 MiB
    mids = []
    for tag, n in (("s40k", 19), ("s100k", 48), ("s300k", 140), ("s700k", 330)):
        pth = os.path.join(wd, tag + ".h")
        open(pth, "w").write(big_header(n))
        mids.append((tag, pth))
    # three inputs whose bindings END in a long run of 3-byte characters, the tails one byte apart: whatever byte offset from the
    # end a piece of code picks, at least two of the three land inside a character
    utails = []
    for k in range(3):
        pth = os.path.join(wd, f"utail{k}.h")
        open(pth, "w").write(SMALL + "/** " + "\u65e5\u672c\u8a9e\u306e\u30b3\u30e1\u30f3\u30c8" * 40 + " */\nint last_" + "z" * (k + 1) + "(void);\n")
        utails.append((f"utail{k}", pth))
    cfg = os.path.join(wd, "rustfmt.toml")
    open(cfg, "w").write("max_width = 70\n")
    # spawn faults
    absent = os.path.join(ffdir, "does-not-exist")
    adir = os.path.join(ffdir, "a-directory")
    os.makedirs(adir, exist_ok=True)
    nonexec = os.path.join(ffdir, "not-executable")
    open(nonexec, "w").write("#!/bin/sh\ncat\n")
    os.chmod(nonexec, 0o644)
    empty = os.path.join(ffdir, "empty-file")
    open(empty, "w").write("")
    os.chmod(empty, 0o755)
    badinterp = os.path.join(ffdir, "bad-interpreter")
    open(badinterp, "w").write("#!/nonexistent/interp\n")
    os.chmod(badinterp, 0o755)

    tuples = []
    for sin in STDIN:
        for sout in STDOUT:
            for term in TERM:
                if sin in ("close", "none") and sout in ("half", "full", "reformat"):
                    continue  # nothing was read, so these equal "nothing"
                if sin in ("stream", "shead") and sout not in ("nothing", "bad"):
                    continue  # the streaming modes echo while reading; only a trailing invalid sequence can be added
                tuples.append((sin, sout, term))
    jobs, meta = [], {}

    def add(tag, hdr, size, fmt, path, conf, expect_fallback, why):
        jid = f"{tag}|{size}|{'cfg' if conf else 'nocfg'}"
        if only and jid != only:
            return
        j = {"id": jid, "mode": "fmtcheck", "args": [hdr], "raw_lines": RAW, "formatter": fmt, "timeout": 45}
        if path:
            j["rustfmt_path"] = path
        if conf:
            j["rustfmt_config"] = cfg
        jobs.append(j)
        meta[jid] = (expect_fallback, why, tag)

    for sin, sout, term in tuples:
        name = f"ff-{sin}-{sout}-{term}"
        link = os.path.join(ffdir, name)
        if not os.path.lexists(link):
            os.symlink(exe, link)
        tr = trusted(sin, sout, term)
        sizes = [("small", small)]
        # the large input matters where pipes can fill up: every tuple in the thorough tier; in quick the tuples
        # with partial / no reading or slow reading, and one full echo
        if ck.tier == "thorough" or (sin in ("none", "half", "slow", "close", "stream", "shead", "allerr", "errall") and term in ("e0", "e1", "e3", "kill")) or (sin, sout) == ("all", "full"):
            sizes.append(("big", big))
            if ck.tier == "thorough" or term in ("e1", "kill"):
                sizes += mids
        if term in ("e1", "e101", "e255", "kill", "segv") and sout in ("full", "half", "reformat", "fullbad"):
            sizes += utails   # a failing formatter that has already written text whose last bytes are multi-byte characters
        for size, hdr in sizes:
            confs = [False, True] if (ck.tier == "thorough" or (size == "small" and term in ("e1", "kill"))) else [False]
            for conf in confs:
                add(name, hdr, size, "rustfmt", link, conf, not tr, f"fake formatter {sin}/{sout}/{term}")
    for tag, path in [("absent", absent), ("directory", adir), ("nonexec", nonexec), ("emptyfile", empty), ("badinterp", badinterp)]:
        for size, hdr in (("small", small), ("big", big)):
            add("spawn-" + tag, hdr, size, "rustfmt", path, False, True, f"spawn fault: {tag}")
    # the three real settings: all must tokenise to the same stream
    strs = []
    for tag, n in (("strs200k", 150), ("strs700k", 520), ("strs1m5", 1100)):
        pth = os.path.join(wd, tag + ".h")
        open(pth, "w").write(strings_header(n))
        strs.append((tag, pth))
    for fmt in ("none", "rustfmt", "prettyplease"):
        for size, hdr in [("small", small), ("big", big)] + strs:
            for conf in ((False, True) if fmt == "rustfmt" else (False,)):
                add("real-" + fmt, hdr, size, fmt, None, conf, False, f"real formatter {fmt}")
    if not only or only.startswith("cli|"):
        cli_part(ck, ffdir, [("small", small), ("big", big)] + mids, only)
    res = common.run_jobs(jobs, wd, timeout=120, threads=8 if ck.tier == "quick" else 12)
    for jid, r in res.items():
        ck.count()
        fallback, why, tag = meta[jid]
        det = {"job": jid, "why": None}
        case = f"{jid}"
        if r["status"] in ("timeout", "crash", "panic"):
            det["why"] = f"{why}: write did not return ({r['status']} {r.get('panic') or r.get('signal') or ''})"
            ck.violation(case + " " + r["status"], det)
            continue
        if r["status"] != "ok":
            raise common.Machinery(f"fmtcheck job {jid}: {r}")
        if r["write"] != "ok":
            det["why"] = f"{why}: Bindings::write returned an error: {r.get('write_err')}"
            ck.violation(case + " write-error", det)
            continue
        problems = []
        if not r["preamble_ok"] or r["header_count"] != 1 or any(c != 1 for c in r["raw_counts"]):
            problems.append(f"header comment / raw lines not exactly once and first (header x{r['header_count']}, raw x{r['raw_counts']}, preamble_ok={r['preamble_ok']})")
        if not r["valid_utf8"]:
            problems.append("output is not valid UTF-8")
        echo_ok = (tag.startswith(("ff-all-", "ff-slow-", "ff-allerr-", "ff-errall-")) and tag.split("-")[2] in ("full", "reformat")) or tag.startswith("ff-stream-nothing-")
        if tag.startswith("real-") or fallback or echo_ok:
            # token identity is required: real formatters, every failure mode, and echoing fakes
            if not r["tokens_equal"]:
                problems.append(f"token sequence differs from Formatter::None: {r['first_diff']}")
        if fallback and not r["identical_text"] and r["tokens_equal"]:
            pass  # token-identical is all the property asks
        if problems:
            det["why"] = f"{why}: " + "; ".join(problems)
            ck.violation(case, det)
        if fallback or tag.startswith("real-"):
            ck.nontriv(jid)
        ck.sample({"job": jid, "expect": "fallback to unformatted" if fallback else "formatter output trusted / real", "write_ms": r.get("write_ms")}, limit=4)
    if not only:
        ck.extra["fault_tuples"] = len(tuples)
        ck.extra["big_bindings_bytes"] = max((r.get("ref_len", 0) for r in res.values()), default=0)
        common.guard(ck.extra["big_bindings_bytes"] > 1_000_000, "C15 vacuity: large bindings are not larger than the pipe buffers")
    ck.assume("a formatter that exits 0 or 3 with valid UTF-8 is trusted by design (its tuples are run for hang/panic/preamble only); "
              "a child that neither reads nor exits is outside the property's fault list and not generated")


def cli_part(ck, ffdir, sizes, only=None):
    """The same protocol through the real command-line binary (its process-level set-up - signal dispositions, stdio - is part
    of what the user runs): formatter taken from $RUSTFMT, output must be produced, exit 0, and equal to --formatter none."""
    import subprocess
    tuples = [("close", "nothing", "e0"), ("close", "nothing", "e1"), ("none", "nothing", "e1"), ("none", "nothing", "kill"), ("half", "half", "e1"),
              ("half", "nothing", "kill"), ("all", "full", "e0"), ("all", "fullbad", "e0"), ("slow", "full", "e1"), ("all", "nothing", "segv"),
              ("stream", "nothing", "e1"), ("stream", "nothing", "kill"), ("shead", "nothing", "e1"), ("stream", "nothing", "e0"),
              ("allerr", "nothing", "e1"), ("errall", "full", "e1"), ("allerr", "full", "e3"), ("errall", "nothing", "kill")]
    if ck.tier != "thorough":
        sizes = [s for s in sizes if s[0] in ("small", "s100k", "s700k", "big")]

    def one(job):
        (sin, sout, term), (size, hdr) = job
        link = os.path.join(ffdir, f"ff-{sin}-{sout}-{term}")
        if not os.path.lexists(link):
            os.symlink(os.path.join(ffdir, "fake_fmt"), link)
        env = dict(common.ENV, RUSTFMT=link)
        # own process group: on a timeout the formatter child (which may hold the pipes open) is killed together with bindgen
        import signal
        p = subprocess.Popen([common.CLI, hdr, "--formatter", "rustfmt", "--raw-line", RAW[0]], env=env, stdout=subprocess.PIPE, stderr=subprocess.PIPE, start_new_session=True)
        try:
            out, err = p.communicate(timeout=45)
            return job, p.returncode, out, err.decode(errors="replace")[-300:]
        except subprocess.TimeoutExpired:
            try:
                os.killpg(p.pid, signal.SIGKILL)
            except ProcessLookupError:
                pass
            p.communicate()
            return job, "timeout", b"", ""

    refs = {}
    for size, hdr in sizes:
        p = subprocess.run([common.CLI, hdr, "--formatter", "none", "--raw-line", RAW[0]], env=common.ENV, stdout=subprocess.PIPE, stderr=subprocess.PIPE, timeout=90)
        common.guard(p.returncode == 0, "C15 CLI reference run failed: " + p.stderr.decode(errors="replace")[-300:])
        refs[size] = p.stdout
    jobs = [(t, s) for t in tuples for s in sizes if not only or only == f"cli|ff-{t[0]}-{t[1]}-{t[2]}|{s[0]}"]
    for (t, (size, hdr)), rc, out, err in common.pmap(one, jobs, threads=8):
        ck.count()
        jid = f"cli|ff-{t[0]}-{t[1]}-{t[2]}|{size}"
        ck.nontriv(jid)
        det = {"job": jid}
        if rc != 0:
            ck.violation(jid + " cli-died", dict(det, why=f"the bindgen process ended with {rc} instead of writing unformatted bindings ({err.strip()[-160:]})"))
        elif (not trusted(*t) or (t[0], t[1]) in (("all", "full"), ("stream", "nothing"))) and out.split() != refs[size].split():
            ck.violation(jid + " cli-output", dict(det, why=f"output differs from --formatter none beyond whitespace (got {len(out)} bytes, reference {len(refs[size])})"))
    ck.extra["cli_runs"] = len(jobs)


def replay(ck, case, detail):
    n0 = len(ck.violations)
    run(ck, only=detail["job"])
    return len(ck.violations) == n0
