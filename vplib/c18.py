"""C18 - extern-block merging and semantic sorting only regroup items.

(1) Pass-level model checking: every item sequence up to length L over a 20-atom alphabet (x unsafe
    extern on/off) plus a systematic family of long periodic sequences is pushed through the REAL
    post-processing pipeline (hook H4 = the crate's own postprocessing()), for all four on/off
    combinations; the property's invariants + idempotence + a boring reference model are evaluated on
    every result (harness/vdriver/src/post.rs).
(2) Whole pipeline: repository headers and generated programs, four on/off outputs compared per module.
"""
import itertools
import os

from . import common
from .common import Check

LEVEL = "model_checking"

ATOMS = [
    'extern "C" { pub fn f{i}(a: i32) -> i32; }',
    'extern "C" { pub static mut v{i}: i32; }',
    'extern "C" { pub fn g{i}(); pub fn h{i}(); }',
    '#[link(wasm_import_module = "m")] extern "C" { pub fn w{i}(); }',
    'extern "stdcall" { pub fn s{i}(); }',
    'extern "C-unwind" { pub fn u{i}(); }',
    'extern "C" { #[link_name = "\\u{1}x{i}"] #[must_use] pub fn l{i}() -> i32; }',
    '#[doc = "blk"] extern "C" { #[doc = "d{i}"] pub static c{i}: u8; }',
    'pub type T{i} = i32;',
    '#[repr(C)] pub struct S{i} { pub x: i32 }',
    '#[repr(C)] pub union U{i} { pub x: i32 }',
    'pub enum E{i} { A }',
    'pub const C{i}: i32 = {i};',
    'impl S0 { pub fn m{i}(&self) {} }',
    'pub use self::T0 as R{i};',
    'pub mod m{i} { {nested} }',
    'const _: () = { ["x{i}"][0]; };',
    'pub fn k{i}() {}',
    # several declarations of ONE link symbol under different Rust names (asm labels, the same extern "C" variable in two namespaces)
    'extern "C" { #[link_name = "shared_static_symbol"] pub static a{i}: i32; }',
    'extern "C" { #[link_name = "shared_fn_symbol"] pub fn b{i}(); pub fn bb{i}(); }',
]
NESTED = [[0, 8, 1], [3, 0, 9, 0], [12, 4, 12], [15, 0]]  # contents of `mod` atoms (indices into ATOMS); last one nests a module in a module


def long_sequences(tier):
    """Systematic long sequences (sort stability / block search need length, not variety):
    every periodic sequence with period pattern in ATOMS^p (p<=2; p<=3 thorough) at lengths 24 and 48."""
    n = len(ATOMS)
    out = []
    pmax = 3 if tier == "thorough" else 2
    for p in range(1, pmax + 1):
        for pat in itertools.product(range(n), repeat=p):
            if p > 1 and len(set(pat)) == 1:
                continue
            for length in (24, 48):
                out.append([pat[i % p] for i in range(length)])
    # blocks of equal kinds followed by others (worst case for an unstable sort)
    for a in range(n):
        for b in range(n):
            if a != b:
                out.append([a] * 11 + [b] * 11 + [a] * 5)
    return out


def new_check(tier):
    return Check("C18", tier, LEVEL,
                 "states = item sequences (every sequence of length<=L over 20 atoms x unsafe-extern on/off, plus all periodic "
                 "sequences with period<=2|3 at lengths 24/48); transitions = applications of the real pass pipeline (4 on/off "
                 "combinations + idempotence re-application); non-trivial = distinct pipeline outputs")


def run(ck, only=None):
    wd = ck.wd
    L = 5 if ck.tier == "thorough" else 4
    n = len(ATOMS)
    jobs = []
    if only is None or only[0] == "seq":
        for ue in (False, True):
            for first in range(n):
                jobs.append({"id": f"enum|{ue}|{first}", "mode": "postcheck", "atoms": ATOMS, "nested": NESTED, "first": [first],
                             "max_len": L, "unsafe_extern": ue, "timeout": 3000})
            longs = long_sequences(ck.tier)
            chunk = (len(longs) + 15) // 16
            for k in range(0, len(longs), chunk):
                jobs.append({"id": f"long|{ue}|{k}", "mode": "postcheck", "atoms": ATOMS, "nested": NESTED, "first": [], "max_len": 0,
                             "unsafe_extern": ue, "explicit": longs[k:k + chunk], "timeout": 3000})
        if only:
            jobs = [{"id": "replay", "mode": "postcheck", "atoms": ATOMS, "nested": NESTED, "first": [], "max_len": 0,
                     "unsafe_extern": only[2], "explicit": [only[1]]}]
        res = common.run_jobs(jobs, wd, timeout=3000)
        seqs = apps = refmm = changed = 0
        distinct = 0
        for jid, r in res.items():
            if r["status"] != "ok":
                raise common.Machinery(f"postcheck job {jid} failed: {r}")
            seqs += r["sequences"]
            apps += r["applications"]
            refmm += r["ref_mismatch"]
            distinct += r["distinct_outputs"]
            changed += r["changed_by_pass"]
            ue = jid.split("|")[1] == "True" if "|" in jid else (only[2] if only else False)
            for v in r["violations"]:
                if v.get("machinery"):
                    raise common.Machinery(str(v))
                case = f"seq={v['seq']} unsafe_extern={ue} merge={v['merge']} sort={v['sort']}"
                ck.violation(case, {"kind": "seq", "seq": v["seq"], "unsafe_extern": ue, "why": v["why"], "items": v.get("items")})
        ck.count(seqs)
        ck.extra["states"] = seqs
        ck.extra["transitions"] = apps
        ck.extra["traces_validated_against_impl"] = seqs
        ck.extra["reference_model_mismatches"] = refmm
        ck.extra["sequence_length_bound"] = L
        ck.extra["applications_that_changed_the_stream"] = changed
        for i in range(min(distinct, 1000)):
            ck.nontriv(("out", i))
        ck.sample({"sequence": [0, 8, 3, 0], "meaning": [ATOMS[0], ATOMS[8], ATOMS[3], ATOMS[0]]})
        ck.sample({"sequence": "periodic [9,8] x 24", "meaning": "struct,type,struct,type,... (sort stability)"})
        if not only:
            common.guard(changed > seqs, "C18 vacuity: the passes hardly ever changed a stream")
    if only is None or only[0] == "pipe":
        pipeline(ck, only)
    ck.assume("mixed-unsafety streams are not generated: bindgen emits one unsafety per run (a function of the rust target), "
              "and the real merge pass keys on (attributes, ABI)")


GEN_HEADERS = {
    "mix.h": ("""
int f0(int); extern int v0; typedef int T0; struct S0 { int a; }; int f1(void); extern const int v1;
__attribute__((stdcall)) void s0(void); enum E0 { A0 }; union U0 { int i; float f; }; void f2(struct S0*, union U0*);
__attribute__((warn_unused_result)) int mu(void); extern int v2; typedef struct S0 T1; int f3(T1 *);
#define K0 1
void f4(void); struct S1 { struct S0 s; }; extern struct S1 v3; int f5(enum E0);
""" + "\n".join(f"int g{i}(int); struct GS{i} {{ int x; }}; extern int gv{i}; typedef int GT{i};" for i in range(14)), ["--", "--target=i686-unknown-linux-gnu"]),
    "ns.hpp": ("""
namespace a { int fa(int); struct SA { int x; }; extern int va; namespace b { void fb(); typedef int TB; extern int vb; struct SB { SA s; }; void fb2(SB*); } int fa2(); }
int top(); extern int vtop; namespace a { int fa3(); } struct ST { int t; }; void top2(ST*);
""" + "\n".join(f"namespace n{i} {{ int q{i}(); struct Q{i} {{ int z; }}; extern int qv{i}; }}" for i in range(8)), ["--enable-cxx-namespaces"]),
}


def pipeline(ck, only):
    wd = ck.wd
    inputs = []  # (name, args)
    for name, (src, flags) in GEN_HEADERS.items():
        p = os.path.join(wd, name)
        open(p, "w").write(src)
        i = flags.index("--") if "--" in flags else len(flags)
        for tgt in ("1.81", "1.82"):
            for extra in ([], ["--wasm-import-module-name", "wm"], ["--extern-fn-block-attrs", '#[link(name = "z")]']):
                inputs.append((f"{name}|{tgt}|{' '.join(extra)}", [p, "--rust-target", tgt] + extra + flags[:i], flags[i:]))
    hs = common.repo_headers()
    if ck.tier == "quick":
        seed = ck.seed
        hs = [h for k, h in enumerate(hs) if (k + seed) % 5 == 0]
    for h in hs:
        args, cb = common.repo_header_args(h)
        if cb:
            continue
        i = args.index("--") if "--" in args else len(args)
        if "--merge-extern-blocks" in args or "--sort-semantically" in args:
            args = [a for a in args if a not in ("--merge-extern-blocks", "--sort-semantically")]
            i = args.index("--") if "--" in args else len(args)
        inputs.append((os.path.basename(h), args[:i], args[i:]))
    jobs = []
    combos = [(False, False), (True, False), (False, True), (True, True)]
    for name, pre, post in inputs:
        if only and only[1] != name:
            continue
        for m, s in combos:
            a = pre + ["--formatter", "none"] + (["--merge-extern-blocks"] if m else []) + (["--sort-semantically"] if s else []) + post
            jobs.append({"id": f"{name}#{int(m)}{int(s)}", "args": a})
    res = common.run_jobs(jobs, wd, timeout=60)
    cmp_jobs = []
    for name, _, _ in inputs:
        if only and only[1] != name:
            continue
        base = res[f"{name}#00"]
        if base["status"] != "ok":
            continue
        for m, s in combos[1:]:
            r = res[f"{name}#{int(m)}{int(s)}"]
            ck.count()
            if r["status"] != "ok":
                ck.violation(f"pipe hdr={name} merge={m} sort={s} status", {"kind": "pipe", "name": name, "why": f"generation fails only with the passes on: {r['status']} {r.get('err', r.get('panic'))}"})
                continue
            cmp_jobs.append({"id": f"{name}#{int(m)}{int(s)}", "mode": "pipecmp", "base": base["text"], "processed": r["text"], "merge": m})
    cres = common.run_jobs(cmp_jobs, wd, timeout=120)
    changed = 0
    for jid, r in cres.items():
        name, ms = jid.rsplit("#", 1)
        if r["status"] != "ok":
            ck.violation(f"pipe hdr={name} combo={ms} unparsable", {"kind": "pipe", "name": name, "why": r.get("err")})
            continue
        if r["changed"]:
            changed += 1
            ck.nontriv(("pipe", jid))
        if r["errs"]:
            ck.violation(f"pipe hdr={name} merge={ms[0]} sort={ms[1]}", {"kind": "pipe", "name": name, "why": "; ".join(r["errs"])})
    ck.extra["pipeline_inputs"] = len(inputs)
    ck.extra["pipeline_outputs_changed_by_passes"] = changed
    # the processed generated programs must still compile
    comp = []
    for name, _, _ in inputs:
        if "|" not in name or (only and only[1] != name) or "mix.h" in name:
            continue  # mix.h is generated for i686 (stdcall); host rustc cannot type-check its ABI
        for m, s in combos:
            r = res[f"{name}#{int(m)}{int(s)}"]
            if r["status"] == "ok":
                comp.append((name, m, s, r["text"]))

    def comp_one(t):
        name, m, s, text = t
        d = os.path.join(wd, "rc", common.sha(name + str(m) + str(s)))
        os.makedirs(d, exist_ok=True)
        p = os.path.join(d, "b.rs")
        open(p, "w").write("#![allow(warnings)]\n" + text)
        ok, err = common.rustc_meta(p)
        return name, m, s, ok, err

    for name, m, s, ok, err in common.pmap(comp_one, comp):
        ck.count()
        if not ok:
            ck.violation(f"pipe hdr={name} merge={m} sort={s} rustc", {"kind": "pipe", "name": name, "why": err[:500]})


def replay(ck, case, detail):
    n0 = len(ck.violations)
    if detail["kind"] == "seq":
        run(ck, only=("seq", detail["seq"], detail["unsafe_extern"]))
    else:
        run(ck, only=("pipe", detail["name"]))
    return not any(c == case for c, _ in ck.violations[n0:])
