"""C07 - inferred type facts are the least fixed point; declaration order is irrelevant.

The explored schedules are the visiting orders the nine work-list analyses can really take: production
pops LIFO and the initial work-list is a function of item numbering, i.e. of declaration order.
 (A)+(B) on every execution (hooks H1/H2 in bindgen/ir/analysis/mod.rs + context.rs lookup_*): after the
     production loop, every rule is re-applied to the end state until nothing changes, and a round-robin
     (Kleene) iteration from bottom is computed; a fact that still changes / differs from the reference
     and is consulted by a later analysis or by code generation is a violation.
 (C) every valid topological re-ordering of the top-level declarations of each graph in GRAPHS (<= 6
     declarations, forward declarations hoisted as needed) must yield the same items (compared per
     module as a multiset of item token strings: every type is named).
"""
import itertools
import os

from . import common
from .common import Check

LEVEL = "model_checking"
DERIVES = ["--with-derive-default", "--with-derive-hash", "--with-derive-partialeq", "--with-derive-partialord",
           "--with-derive-eq", "--with-derive-ord", "--impl-debug", "--impl-partialeq"]


def D(name, src, needs=(), weak=(), fwd=None):
    """A top-level declaration. needs: names whose complete definition must precede; weak: names that only
    need a forward declaration (`fwd` text of that name's decl is hoisted when the definition comes later)."""
    return {"name": name, "src": src, "needs": list(needs), "weak": list(weak), "fwd": fwd}


# (id, language, declarations, extra flags)
GRAPHS = [
    # anonymous (declarator-less) members: the inner type is reached through an InnerType edge AND a Field edge to the same item
    ("c-anonymous-holds-float", "c", [
        D("L", "struct L { float w; int i; };", fwd="struct L;"),
        D("W", "struct W { struct { struct L m; int k; }; int tag; };", needs=["L"], fwd="struct W;"),
        D("V", "struct V { union { struct W w; int z; }; char c; };", needs=["W"], fwd="struct V;"),
        D("U", "struct U { struct V *v; struct L *l; struct { struct V vv; }; };", needs=["V"], weak=["L"]),
    ], []),
    ("cpp-anonymous-template", "cpp", [
        D("Later", "template<class T> struct Later { T item; float weight; };", fwd="template<class T> struct Later;"),
        D("W", "template<class T> struct W { struct { Later<T> m; int k; }; int tag; };", weak=["Later"], fwd="template<class T> struct W;"),
        D("X", "template<class T> struct X { union { W<T> *w; int z; }; struct { Later<T> *p; }; };", weak=["W", "Later"]),
        D("Use", "struct Use { W<int> w; X<char> x; };", needs=["W", "Later", "X"]),
    ], []),
    ("c-float-chain", "c", [
        D("A", "struct A { float f; int i; };", fwd="struct A;"),
        D("B", "struct B { struct A a; int k; };", needs=["A"], fwd="struct B;"),
        D("C", "struct C { struct B b[2]; struct C *next; };", needs=["B"], fwd="struct C;"),
        D("P", "struct P { struct C *c; struct A *a; };", weak=["C", "A"], fwd="struct P;"),
        D("T", "typedef struct B B_t;", weak=["B"]),
        D("Q", "struct Q { B_t *pb; double d; };", needs=["T"]),
    ], []),
    ("c-mutual-pointers", "c", [
        D("X", "struct X { struct Y *y; int a; };", weak=["Y"], fwd="struct X;"),
        D("Y", "struct Y { struct X *x; float f; };", weak=["X"], fwd="struct Y;"),
        D("Z", "struct Z { struct X x; struct Y y; };", needs=["X", "Y"], fwd="struct Z;"),
        D("W", "union W { struct Z z; int arr[40]; };", needs=["Z"]),
        D("F", "void use_all(struct X*, struct Y*, struct Z*);", weak=["X", "Y", "Z"]),
    ], []),
    ("c-typedef-chain", "c", [
        D("t1", "typedef float t1;"),
        D("t2", "typedef t1 t2;", needs=["t1"]),
        D("t3", "typedef t2 t3[3];", needs=["t2"]),
        D("S", "struct S { t3 v; int n; };", needs=["t3"], fwd="struct S;"),
        D("TS", "typedef struct S TS;", weak=["S"]),
        D("U", "struct U { TS *p; t2 x; };", needs=["TS", "t2"]),
    ], []),
    ("c-fnptr-and-arrays", "c", [
        D("cb", "typedef int (*cb)(int a, int b, int c, int d, int e, int f, int g, int h, int i, int j, int k, int l, int m);"),
        D("H", "struct H { cb f; int big[33]; };", needs=["cb"], fwd="struct H;"),
        D("I", "struct I { struct H h; char small[4]; };", needs=["H"], fwd="struct I;"),
        D("J", "struct J { struct I *i; struct H *h; };", weak=["I", "H"]),
        D("K", "struct K { struct I arr[2]; };", needs=["I"]),
    ], []),
    ("c-blocklisted-member", "c", [
        D("Hidden", "struct Hidden { float f; int x; };", fwd="struct Hidden;"),
        D("First", "struct First { struct Hidden h; int a; };", needs=["Hidden"], fwd="struct First;"),
        D("Second", "struct Second { struct Hidden h; char c; };", needs=["Hidden"], fwd="struct Second;"),
        D("Third", "struct Third { struct First f; struct Second s; };", needs=["First", "Second"]),
        D("V", "extern struct Third gv;", needs=["Third"]),
    ], ["--blocklist-type", "Hidden"]),
    ("c-no-recursive-allowlist", "c", [
        D("Hidden", "struct Hidden { float f; int x; };", fwd="struct Hidden;"),
        D("First", "struct First { struct Hidden h; int a; };", needs=["Hidden"], fwd="struct First;"),
        D("Second", "struct Second { struct Hidden h; char c; };", needs=["Hidden"], fwd="struct Second;"),
        D("Other", "struct Other { struct First *f; };", weak=["First"]),
    ], ["--no-recursive-allowlist", "--allowlist-type", "First", "--allowlist-type", "Second"]),
    ("c-opaque-member", "c", [
        D("Op", "struct Op { double d; void *p; };", fwd="struct Op;"),
        D("A1", "struct A1 { struct Op o; int a; };", needs=["Op"], fwd="struct A1;"),
        D("A2", "struct A2 { struct A1 a; struct Op *po; };", needs=["A1"], weak=["Op"]),
        D("A3", "union A3 { struct Op o; int i; };", needs=["Op"]),
    ], ["--opaque-type", "Op"]),
    ("c-allowlist-cut", "c", [
        D("L1", "struct L1 { float f; };", fwd="struct L1;"),
        D("L2", "struct L2 { struct L1 a; };", needs=["L1"], fwd="struct L2;"),
        D("L3", "struct L3 { struct L2 b; struct L1 *p; };", needs=["L2"], weak=["L1"], fwd="struct L3;"),
        D("L4", "struct L4 { struct L3 c; };", needs=["L3"]),
        D("Un", "struct Unrelated { int z; };"),
    ], ["--allowlist-type", "L3", "--blocklist-type", "L1"]),
    ("c-stdint-aliases", "c", [
        D("u8", "typedef unsigned char uint8_t;"),
        D("u32", "typedef unsigned int uint32_t;"),
        D("M", "struct M { uint8_t tag; uint32_t len; };", needs=["u8", "u32"], fwd="struct M;"),
        D("N", "struct N { struct M m; uint8_t data[]; };", needs=["M", "u8"], fwd="struct N;"),
        D("O", "struct O { struct N *n; uint32_t z[0]; };", weak=["N"], needs=["u32"]),
    ], []),
    ("c-union-packed", "c", [
        D("PK", "struct __attribute__((packed)) PK { char c; double d; };", fwd="struct PK;"),
        D("UU", "union UU { struct PK p; float f; };", needs=["PK"], fwd="union UU;"),
        D("HH", "struct HH { union UU u; struct PK pk[3]; };", needs=["UU", "PK"]),
        D("EE", "enum EE { E0, E1 };"),
        D("GG", "struct GG { enum EE e; struct HH *h; };", needs=["EE"], weak=["HH"]),
    ], []),
    ("cpp-inheritance-chain", "cpp", [
        D("Base", "struct Base { double d; };", fwd="struct Base;"),
        D("Mid", "struct Mid : Base { int m; };", needs=["Base"], fwd="struct Mid;"),
        D("Leaf", "struct Leaf : Mid { char c; };", needs=["Mid"], fwd="struct Leaf;"),
        D("Ptr", "struct Ptr { Leaf *l; Base *b; };", weak=["Leaf", "Base"]),
        D("Arr", "struct Arr { Leaf items[2]; };", needs=["Leaf"]),
    ], []),
    ("cpp-diamond-virtual", "cpp", [
        D("V0", "struct V0 { virtual void f(); int a; };", fwd="struct V0;"),
        D("V1", "struct V1 : V0 { float x; };", needs=["V0"], fwd="struct V1;"),
        D("V2", "struct V2 : V0 { ~V2(); int y; };", needs=["V0"], fwd="struct V2;"),
        D("V3", "struct V3 { V1 a; V2 b; };", needs=["V1", "V2"], fwd="struct V3;"),
        D("V4", "struct V4 { V3 *p; V0 &r; };", weak=["V3", "V0"]),
    ], []),
    ("cpp-templates-each-other", "cpp", [
        D("Box", "template <typename T> struct Box { T t; };"),
        D("Pair", "template <typename A, typename B> struct Pair { A a; Box<B> b; };", needs=["Box"]),
        D("Arr", "template <typename T> struct ArrT { T items[4]; };"),
        D("Unused", "template <typename T, typename U> struct UnusedU { T only; };"),
        D("Use1", "struct Use1 { Pair<int, float> p; ArrT<char> a; UnusedU<int, double> u; };", needs=["Pair", "Arr", "Unused"], fwd="struct Use1;"),
        D("Use2", "struct Use2 { Box<Use1> b; Box<Box<double> > bb; };", needs=["Use1", "Box"]),
    ], []),
    ("cpp-template-alias-chain", "cpp", [
        D("W", "template <typename T> struct Wrap { T v; T *p; };"),
        D("A1", "template <typename T> using Alias1 = Wrap<T>;", needs=["W"]),
        D("A2", "template <typename T> using Alias2 = Alias1<T>;", needs=["A1"]),
        D("S1", "struct S1 { Alias2<float> a; };", needs=["A2"], fwd="struct S1;"),
        D("S2", "struct S2 { Alias1<S1> a; Wrap<int> w; };", needs=["A1", "S1", "W"]),
        D("TD", "typedef Wrap<double> WrapD;", needs=["W"]),
    ], []),
    ("cpp-dtor-and-vtable-members", "cpp", [
        D("HasD", "struct HasD { ~HasD(); int x; };", fwd="struct HasD;"),
        D("Holds", "struct Holds { HasD d; float f; };", needs=["HasD"], fwd="struct Holds;"),
        D("Outer", "struct Outer { Holds h[2]; };", needs=["Holds"], fwd="struct Outer;"),
        D("Vt", "struct Vt { virtual ~Vt(); };", fwd="struct Vt;"),
        D("Both", "struct Both : Vt { Outer o; };", needs=["Vt", "Outer"]),
        D("Un", "union UnD { HasD d; int i; };", needs=["HasD"]),
    ], []),
    ("cpp-namespaces-opaque", "cpp", [
        D("ns1", "namespace n1 { struct In { float f; }; }"),
        D("ns2", "namespace n2 { struct Out { n1::In i; int k; }; }", needs=["ns1"]),
        D("ns3", "namespace n1 { struct More { n2::Out o; In *p; }; }", needs=["ns2", "ns1"]),
        D("Top", "struct Top { n1::More m; n2::Out *o; };", needs=["ns3"]),
        D("Tp", "template <typename T> struct HoldsT { T t; n1::In i; };", needs=["ns1"]),
        D("Inst", "struct Inst { HoldsT<int> h; };", needs=["Tp"]),
    ], ["--enable-cxx-namespaces", "--opaque-type", "n2::Out"]),
    ("cpp-empty-and-zero-sized", "cpp", [
        D("E", "struct Empty {};", fwd="struct Empty;"),
        D("EB", "struct EmptyBase : Empty {};", needs=["E"], fwd="struct EmptyBase;"),
        D("HE", "struct HasEmpty { Empty e; EmptyBase b; };", needs=["E", "EB"], fwd="struct HasEmpty;"),
        D("DE", "struct DerivesEmpty : EmptyBase { int x; };", needs=["EB"]),
        D("TE", "template <typename T> struct TEmpty {}; struct UsesTE { TEmpty<int> t; Empty arr[2]; };", needs=["E"]),
    ], []),
    ("cpp-template-definition-float", "cpp", [
        D("W", "template <typename T> struct W { T v; float w; };"),
        D("H", "struct H { W<int> a; int k; };", needs=["W"], fwd="struct H;"),
        D("H2", "struct H2 { H h[2]; };", needs=["H"]),
        D("WC", "typedef W<char> WC;", needs=["W"]),
        D("H3", "struct H3 { WC c; H *p; };", needs=["WC"], weak=["H"]),
    ], []),
    # loosely constrained graphs: many valid orders (up to 6! = 720), pointer relations only
    ("c-six-pointer-web", "c", [
        D("P1", "struct P1 { struct P2 *a; struct P6 *b; float f; };", weak=["P2", "P6"], fwd="struct P1;"),
        D("P2", "struct P2 { struct P3 *a; struct P1 *b; int arr[40]; };", weak=["P3", "P1"], fwd="struct P2;"),
        D("P3", "struct P3 { union P4 *a; double d; };", weak=["P4"], fwd="struct P3;"),
        D("P4", "union P4 { struct P5 *a; struct P1 *b; };", weak=["P5", "P1"], fwd="union P4;"),
        D("P5", "struct P5 { union P4 *a; struct P2 *b; void (*cb)(struct P6 *); };", weak=["P4", "P2", "P6"], fwd="struct P5;"),
        D("P6", "struct P6 { struct P5 *a; char c; };", weak=["P5"], fwd="struct P6;"),
    ], []),
    ("cpp-six-class-web", "cpp", [
        D("Q1", "struct Q1 { Q2 *a; Q6 *b; float f; virtual void v(); };", weak=["Q2", "Q6"], fwd="struct Q1;"),
        D("Q2", "struct Q2 { Q3 *a; Q1 &r; ~Q2(); };", weak=["Q3", "Q1"], fwd="struct Q2;"),
        D("Q3", "template <typename T> struct Q3T { T *p; T *arr[2]; }; struct Q3 { Q3T<Q4> t; double d; };", weak=["Q4"], fwd="struct Q3;"),
        D("Q4", "struct Q4 { Q5 *a; int x; };", weak=["Q5"], fwd="struct Q4;"),
        D("Q5", "struct Q5 { Q4 *a; Q2 *b; };", weak=["Q4", "Q2"], fwd="struct Q5;"),
        D("Q6", "struct Q6 { Q5 *a; char c[33]; };", weak=["Q5"], fwd="struct Q6;"),
    ], []),
    ("c-five-mixed", "c", [
        D("R1", "struct R1 { float f; };", fwd="struct R1;"),
        D("R2", "struct R2 { struct R1 r; struct R5 *p; };", needs=["R1"], weak=["R5"], fwd="struct R2;"),
        D("R3", "typedef struct R2 R3;", weak=["R2"]),
        D("R4", "struct R4 { R3 *p; int (*f)(struct R1); };", needs=["R3", "R1"], fwd="struct R4;"),
        D("R5", "struct R5 { struct R4 *q; struct R1 one[2]; };", weak=["R4"], needs=["R1"], fwd="struct R5;"),
        D("R6", "extern struct R5 *r6_var; struct R2 *r6_fn(struct R4 *);", weak=["R5", "R2", "R4"]),
    ], []),
    ("cpp-type-param-array", "cpp", [
        D("TA", "template <typename T> struct TA { T data[8]; };"),
        D("TB", "template <typename T> struct TB { TA<T> inner; int n; };", needs=["TA"]),
        D("TC", "template <typename T> struct TC { TB<T> *p; };", needs=["TB"]),
        D("UA", "struct UA { TA<float> a; TB<int> b; TC<char> c; };", needs=["TA", "TB", "TC"], fwd="struct UA;"),
        D("UB", "struct UB { UA u; UA *next; };", needs=["UA"]),
    ], []),
]


def valid_orders(decls):
    """All permutations in which every `needs` dependency precedes its user."""
    names = [d["name"] for d in decls]
    idx = {n: i for i, n in enumerate(names)}
    for perm in itertools.permutations(range(len(decls))):
        pos = {p: k for k, p in enumerate(perm)}
        ok = True
        for i, d in enumerate(decls):
            for n in d["needs"]:
                if pos[idx[n]] > pos[i]:
                    ok = False
                    break
            if not ok:
                break
        if ok:
            yield perm


def render(decls, perm, lang):
    """Source text for one order; forward declarations are hoisted for weak deps defined later (C++ needs
    them; in C they are harmless)."""
    idx = {d["name"]: i for i, d in enumerate(decls)}
    pos = {p: k for k, p in enumerate(perm)}
    out = []
    emitted_fwd = set()
    for k, p in enumerate(perm):
        d = decls[p]
        for w in d["weak"]:
            wi = idx[w]
            if pos[wi] > k and w not in emitted_fwd and decls[wi]["fwd"]:
                out.append(decls[wi]["fwd"])
                emitted_fwd.add(w)
        out.append(d["src"])
    return "\n".join(out) + "\n"


def canon_items(inv):
    """Order-insensitive canonical form: per module path the sorted multiset of item token strings."""
    res = {}

    def walk(items, path):
        bag = []
        for it in items:
            if it["kind"] == "mod":
                walk(it["items"], path + "::" + it["name"])
                bag.append("mod " + it["name"])
            elif it["kind"] == "foreign_mod":
                for fi in it["items"]:
                    bag.append(f"extern[{it.get('abi')}|{it.get('unsafety')}|{it.get('attrs')}] " + fi["tokens"])
            else:
                bag.append(it["tokens"])
        res[path] = sorted(bag)

    walk(inv["items"], "root")
    return res


def diff_canon(a, b):
    msgs = []
    for path in sorted(set(a) | set(b)):
        sa, sb = a.get(path, []), b.get(path, [])
        if sa != sb:
            only_a = [x for x in sa if x not in sb]
            only_b = [x for x in sb if x not in sa]
            msgs.append(f"{path}: only in reference order: {[x[:160] for x in only_a[:2]]}; only in this order: {[x[:160] for x in only_b[:2]]}")
    return msgs


def fix_events(ck, case, r, det):
    f = r.get("fixpoint")
    if not f:
        return
    ck.extra["transitions"] = ck.extra.get("transitions", 0) + sum(a["constrain_calls"] for a in f["runs"])
    ck.extra["states"] = ck.extra.get("states", 0) + len(f["runs"])
    ck.extra["consultations"] = ck.extra.get("consultations", 0) + f["consultations"]
    ck.extra["unstable_facts_not_consulted"] = ck.extra.get("unstable_facts_not_consulted", 0) + sum(len(a["unstable"]) for a in f["runs"])
    ck.extra["not_least_facts_not_consulted"] = ck.extra.get("not_least_facts_not_consulted", 0) + sum(len(a["not_least"]) for a in f["runs"])
    for a in f["runs"]:
        if a["reference_diverged"]:
            ck.extra["reference_diverged_runs"] = ck.extra.get("reference_diverged_runs", 0) + 1
    if f["events"]:
        ck.violation(case + " fixpoint", dict(det, why="; ".join(f["events"][:6])))


def new_check(tier):
    return Check("C07", tier, LEVEL,
                 "schedules = every valid topological re-ordering of the top-level declarations of each declaration graph (<=6 "
                 "declarations: all orders) plus every repository header as written; states = analysis end-states checked (one per "
                 "analysis run), transitions = constrain applications of the production loop; non-trivial = order whose item numbering "
                 "differs from the reference order, or header with >= 1 analysis fact")


def run(ck, only=None):
    wd = ck.wd
    jobs, meta = [], {}
    graphs = GRAPHS
    for gid, lang, decls, flags in graphs:
        if only and only.get("graph") != gid:
            continue
        orders = list(valid_orders(decls))
        if ck.tier == "quick" and len(orders) > 40 and not only:
            # quick: a systematic slice (every k-th order in lexicographic enumeration, rotated by VERIF_SEED) - thorough runs all
            k = (len(orders) + 39) // 40
            orders = [o for i, o in enumerate(orders) if (i + ck.seed) % k == 0 or i == 0]
            ck.cap(f"quick tier: {len(orders)} of the orders of {gid} (every {k}-th); all orders in the thorough tier")
        ext = "h" if lang == "c" else "hpp"
        for perm in orders:
            if only and only.get("perm") is not None and list(perm) != only["perm"] and perm != orders[0]:
                continue
            src = render(decls, perm, lang)
            name = f"{gid}__{'_'.join(map(str, perm))}.{ext}"
            path = os.path.join(wd, name)
            with open(path, "w") as f:
                f.write(src)
            jid = f"g|{gid}|{','.join(map(str, perm))}"
            cl = ["--", "-x", "c++", "-std=c++14"] if lang == "cpp" else []
            jobs.append({"id": jid, "args": [path, "--formatter", "none"] + DERIVES + flags + cl, "inventory": True, "text": False, "fixpoint": True})
            meta[jid] = (gid, perm, src)
    # repository headers as written, all derives on so that all analyses run
    if not only or only.get("header"):
        hs = common.repo_headers()
        if ck.tier == "quick" and not only:
            hs = [h for k, h in enumerate(hs) if (k + ck.seed) % 4 == 0]
        for h in hs:
            if only and only.get("header") != os.path.basename(h):
                continue
            args, cb = common.repo_header_args(h)
            i = args.index("--") if "--" in args else len(args)
            extra = [d for d in DERIVES if d not in args]
            jid = "h|" + os.path.basename(h)
            jobs.append({"id": jid, "args": args[:i] + extra + args[i:], "text": False, "fixpoint": True})
            meta[jid] = (None, None, None)
    # large declaration graphs: more items than any table, bitmap or id space the analyses could have been sized for
    # (tens of thousands), with the fact that decides every record (a float behind a typedef) at the lowest and at the highest ids
    if not only or only.get("graph", "").startswith("large-"):
        n = 9000
        body = [f"struct L{i} {{ real v; int t{i}; struct L{i - 1 if i else 0} *prev; }};" for i in range(n)]
        body[0] = "struct L0 { real v; int t0; };"
        probe = "struct Probe { real v; int tag; };"
        holder = "struct HoldsProbe { struct Probe p; struct L17 l; };"
        large = {"large-probe-first": ["typedef float real;", probe] + body + [holder],
                 "large-probe-last": ["typedef float real;"] + body + [probe, holder],
                 "large-probe-middle": ["typedef float real;"] + body[:n // 2] + [probe] + body[n // 2:] + [holder]}
        for gid, lines in large.items():
            if only and only.get("graph") != gid:
                continue
            path = os.path.join(wd, gid + ".h")
            open(path, "w").write("\n".join(lines) + "\n")
            jid = f"g|large|{gid}"
            jobs.append({"id": jid, "args": [path, "--formatter", "none", "--no-layout-tests"] + DERIVES, "inventory": True, "text": False, "fixpoint": True, "timeout": 300})
            meta[jid] = ("large", (gid,), "(generated: typedef float real; 9000 records holding it; Probe at one end)")
    # the same C++ graphs under other spellings of "this is C++" (file extension x language argument): the facts may not depend on
    # which spelling told bindgen the language
    lang_jobs = {}
    if not only or only.get("lang"):
        for gid, lang, decls, flags in graphs:
            if lang != "cpp" or (only and only.get("graph") != gid):
                continue
            perm = next(iter(valid_orders(decls)))
            src = render(decls, perm, lang)
            for vn, ext, cl in (("hpp-x-c++", "hpp", ["-x", "c++"]), ("h-x-c++-header", "h", ["-x", "c++-header"]), ("h-xc++", "h", ["-xc++"]), ("hh-none", "hh", []),
                                ("h-x-c++-header-std", "h", ["-xc++-header", "-std=c++14"])):
                path = os.path.join(wd, f"lang_{gid}_{vn.replace('+', 'p')}.{ext}")
                open(path, "w").write(src)
                jid = f"lang|{gid}|{vn}"
                jobs.append({"id": jid, "args": [path, "--formatter", "none"] + DERIVES + flags + ["--"] + cl + (["-std=c++14"] if "-std=c++14" not in cl else []), "inventory": True, "text": False, "fixpoint": True})
                lang_jobs[jid] = (gid, vn, src)
    res = common.run_jobs(jobs, wd, timeout=300)
    lang_ref = {}
    for jid, (gid, vn, src) in lang_jobs.items():
        r = res.pop(jid)
        ck.count()
        case = f"graph={gid} language-spelling={vn}"
        det = {"graph": gid, "lang": vn}
        if r["status"] != "ok":
            ck.violation(case + " generation-failed", dict(det, why=f"{r['status']} {r.get('err', r.get('panic'))}"[:300], src=src))
            continue
        fix_events(ck, case, r, det)
        can = canon_items(r["inventory"])
        if gid not in lang_ref:
            lang_ref[gid] = (vn, can)
        else:
            ck.nontriv(jid)
            msgs = diff_canon(lang_ref[gid][1], can)
            if msgs:
                ck.violation(case + " differs-from-spelling " + lang_ref[gid][0], dict(det, why="; ".join(msgs)[:900], src=src))
    ref = {}
    nheaders = 0
    for jid in sorted(res):
        r = res[jid]
        kind = jid.split("|")[0]
        ck.count()
        if kind == "h":
            if r["status"] != "ok":
                continue  # C12's business
            nheaders += 1
            if r.get("fixpoint", {}).get("runs"):
                ck.nontriv(jid)
            fix_events(ck, f"header {jid[2:]}", r, {"header": jid[2:]})
            continue
        gid, perm, src = meta[jid]
        det = {"graph": gid, "perm": list(perm)}
        case = f"graph={gid} order={list(perm)}"
        if r["status"] == "err" and r.get("err_kind") == "ClangDiagnostic":
            raise common.Machinery(f"C07 generator produced a header clang rejects ({gid} {list(perm)}): {r.get('err')[:300]}")
        if r["status"] != "ok":
            ck.violation(case + " generation-failed", dict(det, why=f"{r['status']} {r.get('err', r.get('panic'))}"[:300], src=src))
            continue
        fix_events(ck, case, r, det)
        can = canon_items(r["inventory"])
        if gid not in ref:
            ref[gid] = (perm, can)
            ck.sample({"graph": gid, "order": list(perm), "header": src}, limit=3)
        else:
            ck.nontriv(jid)
            msgs = diff_canon(ref[gid][1], can)
            if msgs:
                ck.violation(case + " differs-from-order " + str(list(ref[gid][0])), dict(det, why="; ".join(msgs)[:900], src=src))
    ck.extra["traces_validated_against_impl"] = ck.evaluations
    ck.extra["graphs"] = len(ref)
    ck.extra["repository_headers"] = nheaders
    ck.assume("arbitrary work-list pop orders are NOT explored: production never takes them and 72 analysis runs on the unchanged "
              "tree are LIFO-dependent without any consulted fact being wrong (DESIGN.md section 6/C07)")


def replay(ck, case, detail):
    n0 = len(ck.violations)
    run(ck, only=detail)
    return not any(c == case for c, _ in ck.violations[n0:])
