"""C probe / Rust probe synthesis and drivers for the layout-style oracles (C02 C06 C10 C01 C08 C03b).

A batch = many RecordCases in one header. The C probe (clang) and the Rust probe (rustc, bindings produced by
the real bindgen) print the same transcript lines; verdicts are always per case: a batch whose Rust side does
not compile is split with the help of rustc's JSON diagnostics (error line -> enclosing item -> case tag) and
the offending cases are re-run alone.
"""
import json
import os
import threading
import re

from . import common
from .gen_c import rust_field

TAG_RE = re.compile(r"\bK\d+\b")

C_PRELUDE = r'''
#include <stdio.h>
#include <stddef.h>
#include <string.h>
#include <stdint.h>
static void dump(const char *tag, const void *p, size_t n) {
    const unsigned char *b = (const unsigned char *)p;
    printf("D %s ", tag);
    for (size_t i = 0; i < n; i++) printf("%02x", b[i]);
    printf("\n");
}
'''

RUST_PRELUDE = r'''
#![allow(warnings)]
mod b { include!("@BINDINGS@"); }
use std::mem::{size_of, align_of, MaybeUninit};
use std::ptr::{addr_of, addr_of_mut};
fn psz<F>(_: *const F) -> usize { size_of::<F>() }
#[repr(C, align(128))] struct Buf<const N: usize>([u8; N]);
fn dump<T>(tag: &str, p: *const T) {
    let n = size_of::<T>();
    let bytes = unsafe { std::slice::from_raw_parts(p as *const u8, n) };
    let mut s = String::new();
    for b in bytes { s.push_str(&format!("{:02x}", b)); }
    println!("D {} {}", tag, s);
}
'''


def c_value(kind, idx):
    if kind == "sint":
        return f"-({3 + idx})"
    if kind == "uint":
        return f"(~0ull - {idx})"
    if kind == "bool":
        return "1"
    if kind == "enum":
        return "70000"
    if kind == "ptr":
        return f"(void*)(uintptr_t){0x1000 + idx}"
    if kind == "float":
        return f"{idx}.5"
    return None


def rust_value(kind, idx):
    if kind == "sint":
        return f"(-{3 + idx}i64) as _"
    if kind == "uint":
        return f"(!0u64 - {idx}) as _"
    if kind == "bool":
        return "true"
    if kind == "enum":
        return "70000 as _"
    if kind == "ptr":
        return f"({0x1000 + idx}usize) as _"
    if kind == "float":
        return f"{idx}.5 as _"
    return None


def c_probe_source(cases, header_name):
    out = [C_PRELUDE, f'#include "{header_name}"', "int main(void) {"]
    for c in cases:
        T = c.c_name()
        out.append(f'  printf("T {c.tag} %zu %zu\\n", sizeof({T}), (size_t)_Alignof({T}));')
        out.append(f"  {{ {T} v; memset(&v, 0, sizeof v);")
        wrote = False
        for idx, (f, kind) in enumerate(c.fields()):
            if not kind.startswith("bits"):
                out.append(f'    printf("F {c.tag} {f} %zu %zu\\n", offsetof({T}, {f}), sizeof(v.{f}));')
            val = c_value(kind, idx)
            if val is not None and not (c.kind == "union" and wrote):
                out.append(f"    v.{f} = {val};")
                wrote = True
                if kind in ("sint", "enum", "bool"):
                    out.append(f'    printf("V {c.tag} {f} %lld\\n", (long long)v.{f});')
                elif kind == "uint":
                    out.append(f'    printf("V {c.tag} {f} %llu\\n", (unsigned long long)v.{f});')
                elif kind == "ptr":
                    out.append(f'    printf("V {c.tag} {f} %llu\\n", (unsigned long long)(uintptr_t)v.{f});')
        out.append(f'    dump("{c.tag}", &v, sizeof v); }}')
    out.append("  return 0; }")
    return "\n".join(out)


def index_inventory(inv):
    """name -> struct/union item (top-level and nested modules flattened; bindings of generated headers are flat)."""
    idx = {}

    def walk(items):
        for it in items:
            if it["kind"] in ("struct", "union"):
                idx[it["name"]] = it
            elif it["kind"] == "mod":
                walk(it["items"])
    walk(inv["items"])
    if any(it["kind"] == "mod" and it["name"] == "root" for it in inv["items"]):
        idx["::prefix"] = "::root"
    return idx


def resolve_field(idx, tyname, cfield, depth=0):
    """Rust access path (list of field names) of C member `cfield` of type `tyname`, looking through anonymous members."""
    it = idx.get(tyname)
    if it is None or depth > 4:
        return None
    want = rust_field(cfield)
    for f in it["fields"]:
        if f["name"] == want:
            return [want]
    for f in it["fields"]:
        if f["name"].startswith("__bindgen_anon_"):
            inner = f["ty"].replace(" ", "").replace("root::", "")
            m = re.fullmatch(r"__BindgenUnionField<(.*)>", inner)
            if m:
                inner = m.group(1)
            sub = resolve_field(idx, inner, cfield, depth + 1)
            if sub:
                return [f["name"]] + sub
    return None


def field_ty(idx, tyname, path):
    """Rust type string of the member reached by `path` from `tyname`."""
    ty = None
    cur = tyname
    for comp in path:
        it = idx.get(cur)
        if it is None:
            return None
        f = next((f for f in it["fields"] if f["name"] == comp), None)
        if f is None:
            return None
        ty = f["ty"].replace(" ", "")
        cur = ty.replace("root::", "")
        m = re.fullmatch(r"__BindgenUnionField<(.*)>", cur)
        if m:
            cur = m.group(1)
    return ty


def rust_probe_source(cases, inv_idx, bindings_path):
    out = [RUST_PRELUDE.replace("@BINDINGS@", bindings_path).replace("mod b {", "mod b0 {") + "use b0" + inv_idx.get("::prefix", "") + " as b;\n", "fn main() {"]
    missing = {}
    for c in cases:
        if c.tag not in inv_idx:
            missing[c.tag] = ["<type not emitted>"]
            continue
        out.append(f'  {{ type X = b::{c.tag}; println!("T {c.tag} {{}} {{}}", size_of::<X>(), align_of::<X>()); /*{c.tag}*/')
        out.append(f"    let mut u = Buf([0u8; size_of::<X>()]); let p = u.0.as_mut_ptr() as *mut X; unsafe {{ /*{c.tag}*/")
        wrote = False
        for idx, (f, kind) in enumerate(c.fields()):
            if kind.startswith("bits"):
                continue
            path = resolve_field(inv_idx, c.tag, f)
            if path is None:
                missing.setdefault(c.tag, []).append(f)
                continue
            acc = ".".join(path)
            fty = field_ty(inv_idx, c.tag, path) or ""
            wrapper = fty.startswith("__BindgenUnionField<") or "::__BindgenUnionField<" in fty
            if wrapper:
                # bindgen's union wrapper style: members are zero-sized typed accessors at offset 0
                out.append(f'      println!("F {c.tag} {f} {{}} -1", (addr_of!((*p).{acc}) as usize) - (p as usize)); /*{c.tag}*/')
                continue
            out.append(f'      println!("F {c.tag} {f} {{}} {{}}", (addr_of!((*p).{acc}) as usize) - (p as usize), psz(addr_of!((*p).{acc}))); /*{c.tag}*/')
            val = rust_value(kind, idx)
            if fty.startswith("__IncompleteArrayField") or not fty:
                val = None
            if val is not None and not (c.kind == "union" and wrote):
                wrote = True
                out.append(f"      addr_of_mut!((*p).{acc}).write_unaligned({val}); /*{c.tag}*/")
                if kind in ("sint", "uint", "enum", "bool"):
                    out.append(f'      println!("V {c.tag} {f} {{}}", addr_of!((*p).{acc}).read_unaligned() as i128); /*{c.tag}*/')
                elif kind == "ptr":
                    out.append(f'      println!("V {c.tag} {f} {{}}", addr_of!((*p).{acc}).read_unaligned() as usize); /*{c.tag}*/')
        if any((field_ty(inv_idx, c.tag, resolve_field(inv_idx, c.tag, f) or []) or "").find("__BindgenUnionField<") >= 0 for f, _ in c.fields()):
            out.append(f"    }} }} /*{c.tag}: union wrapper style, members are accessors: no value round trip*/")
        else:
            out.append(f'      dump("{c.tag}", p as *const X); }} }} /*{c.tag}*/')
    out.append("}")
    return "\n".join(out), missing


def parse_transcript(text):
    """{tag: {"T": (size, align), "F": {field: (off, size)}, "V": {field: val}, "D": hex}}"""
    res = {}
    for line in text.splitlines():
        p = line.split()
        if not p:
            continue
        if p[0] == "T":
            res.setdefault(p[1], {"F": {}, "V": {}})["T"] = (int(p[2]), int(p[3]))
        elif p[0] == "F":
            res.setdefault(p[1], {"F": {}, "V": {}})["F"][p[2]] = (int(p[3]), int(p[4]))
        elif p[0] == "V":
            res.setdefault(p[1], {"F": {}, "V": {}})["V"][p[2]] = p[3]
        elif p[0] == "D":
            res.setdefault(p[1], {"F": {}, "V": {}})["D"] = p[2] if len(p) > 2 else ""
    return res


def item_tags_by_line(text):
    """For every line of a (pretty-printed) bindings text: the set of case tags of the enclosing top-level item."""
    lines = text.split("\n")
    starts = [i for i, l in enumerate(lines) if l and not l[0].isspace() and l[0] not in "})]"]
    # attribute lines (#[...]) belong to the item that follows
    groups = []
    cur = None
    for i in starts:
        if cur is None:
            cur = i
        if not lines[i].startswith("#["):
            groups.append(cur)
            cur = None
    tags_of_line = [set()] * len(lines)
    bounds = groups + [len(lines)]
    for a, b in zip(bounds, bounds[1:]):
        tags = set(TAG_RE.findall("\n".join(lines[a:b])))
        for i in range(a, b):
            tags_of_line[i] = tags
    return tags_of_line


def rustc_diagnose(main_rs, out, bindings_text, bindings_path, mode="bin", edition="2021", extra=None):
    """Compile; on failure return the set of case tags the errors point at (via JSON spans)."""
    cmd = ["rustc", "--edition", edition, "-Awarnings", "--error-format=json", main_rs]
    if mode == "bin":
        cmd += ["-C", "opt-level=0", "-C", "debuginfo=0", "-o", out]
    else:
        cmd += ["--crate-type", "lib", "--emit=metadata", "--out-dir", os.path.dirname(out)]
    cmd += (extra or [])
    _DIAG.by_tag = {}
    p = common.sh(cmd, timeout=900)
    if p.returncode == 0:
        return True, set(), []
    tags = set()
    msgs = []
    by_tag = {}
    tline = item_tags_by_line(bindings_text)
    main_lines = open(main_rs).read().split("\n")
    for line in p.stderr.decode(errors="replace").splitlines():
        try:
            d = json.loads(line)
        except ValueError:
            continue
        if d.get("level") != "error":
            continue
        msg = ((d.get("code") or {}).get("code", "") + " " + d.get("message", "")[:200]).strip()
        msgs.append(msg)
        before = set(tags)
        found = False
        for sp in d.get("spans", []):
            fn = sp.get("file_name", "")
            ln = sp.get("line_start", 1) - 1
            if os.path.basename(fn) == os.path.basename(bindings_path):
                if ln < len(tline) and tline[ln]:
                    tags |= tline[ln]
                    found = True
            elif os.path.basename(fn) == os.path.basename(main_rs):
                if ln < len(main_lines):
                    t = TAG_RE.findall(main_lines[ln])
                    if t:
                        tags |= set(t)
                        found = True
        if not found:
            t = TAG_RE.findall(d.get("message", "") + " ".join(c.get("message", "") for c in d.get("children", [])))
            tags |= set(t)
        for t in tags - before | {x for x in tags if x in msg}:
            by_tag.setdefault(t, []).append(msg)
    _DIAG.by_tag = by_tag
    return False, tags, msgs


# Per-tag messages of the calling thread's last failed rustc_diagnose. The batch pipelines run in a thread pool (common.pmap):
# this used to be one attribute on the function object, so a batch could read the dictionary another batch had just stored,
# find none of its tags there and fall back to the first two messages of its own batch - wrong error codes for the case, hence a
# wrong known-finding predicate (DESIGN.md section 11, the C01 alarm of the fifth restore run).
_DIAG = threading.local()


def last_by_tag():
    return getattr(_DIAG, "by_tag", {})


# --------------------------------------------------------------------------------------------------
# batch pipeline

def run_layout_batches(batches, wd, flags, values=True, lang="c", timeout=120):
    """batches: list of (name, [RecordCase]). Returns {tag: result} with result keys:
       c (parsed C transcript entry), r (parsed Rust transcript entry or None), rust_error (messages) or None,
       missing (C members not exposed), gen (bindgen status)."""
    os.makedirs(wd, exist_ok=True)
    ext = "h" if lang == "c" else "hpp"
    jobs = []
    for name, cases in batches:
        hp = os.path.join(wd, f"{name}.{ext}")
        with open(hp, "w") as f:
            f.write("\n".join(c.source() for c in cases) + "\n")
        cl = ["--", "-x", "c++", "-std=c++14"] if lang == "cpp" else []
        jobs.append({"id": name, "args": [hp, "--formatter", "prettyplease", "--no-layout-tests"] + list(flags) + cl, "inventory": True, "timeout": timeout})
    gen = common.run_jobs(jobs, wd, timeout=timeout)

    def one(b):
        name, cases = b
        res = {c.tag: {"c": None, "r": None, "rust_error": None, "missing": [], "gen": gen[name]["status"]} for c in cases}
        hp = os.path.join(wd, f"{name}.{ext}")
        # C side
        cp = os.path.join(wd, f"{name}_probe.c")
        with open(cp, "w") as f:
            f.write(c_probe_source(cases, os.path.basename(hp)))
        exe = os.path.join(wd, f"{name}_cprobe")
        rc, _, err = common.clang((["-x", "c++", "-std=c++14"] if lang == "cpp" else ["-std=gnu11"]) + ["-w", "-O0", "-o", exe, cp], cwd=wd)
        if rc != 0:
            raise common.Machinery(f"generated C probe does not compile ({name}): {err[:1500]}")
        ctr = parse_transcript(common.sh([exe], timeout=120).stdout.decode())
        for c in cases:
            res[c.tag]["c"] = ctr.get(c.tag)
        g = gen[name]
        if g["status"] != "ok":
            for c in cases:
                res[c.tag]["gen_detail"] = g.get("err") or g.get("panic") or str(g.get("signal"))
            return res
        bpath = os.path.join(wd, f"{name}_bindings.rs")
        with open(bpath, "w") as f:
            f.write(g["text"])
        idx = index_inventory(g["inventory"])
        live = list(cases)
        for attempt in range(4):
            src, missing = rust_probe_source(live, idx, bpath) if values else rust_probe_source_numbers(live, idx, bpath)
            for t, m in missing.items():
                res[t]["missing"] = m
            mp = os.path.join(wd, f"{name}_probe.rs")
            with open(mp, "w") as f:
                f.write(src)
            rexe = os.path.join(wd, f"{name}_rprobe")
            ok, tags, msgs = rustc_diagnose(mp, rexe, g["text"], bpath)
            if ok:
                rtr = parse_transcript(common.sh([rexe], timeout=120).stdout.decode())
                for c in live:
                    res[c.tag]["r"] = rtr.get(c.tag)
                break
            bad = [c for c in live if c.tag in tags]
            if not bad:
                # cannot attribute: everything in this batch is undecided on the Rust side
                for c in live:
                    res[c.tag]["rust_error"] = ["unattributed: " + "; ".join(msgs[:3])]
                break
            bt = last_by_tag()
            for c in bad:
                res[c.tag]["rust_error"] = sorted(set(bt.get(c.tag) or msgs[:2]))[:4]
            live = [c for c in live if c.tag not in tags]
            # bindings of the failing cases stay in the file: errors inside them would persist, so regenerate without them
            sub_h = os.path.join(wd, f"{name}_sub{attempt}.{ext}")
            with open(sub_h, "w") as f:
                f.write("\n".join(c.source() for c in live) + "\n")
            cl = ["--", "-x", "c++", "-std=c++14"] if lang == "cpp" else []
            sub = common.run_jobs([{"id": name, "args": [sub_h, "--formatter", "prettyplease", "--no-layout-tests"] + list(flags) + cl, "inventory": True, "timeout": timeout}], wd, threads=1, timeout=timeout)[name]
            if sub["status"] != "ok":
                break
            g = sub
            with open(bpath, "w") as f:
                f.write(g["text"])
            idx = index_inventory(g["inventory"])
        return res

    out = {}
    for r in common.pmap(one, batches):
        out.update(r)
    return out


def rust_probe_source_numbers(cases, inv_idx, bindings_path):
    """Numbers only (size, align, offsets, member sizes): used for presentation-option variants."""
    out = [RUST_PRELUDE.replace("@BINDINGS@", bindings_path).replace("mod b {", "mod b0 {") + "use b0" + inv_idx.get("::prefix", "") + " as b;\n", "fn main() {"]
    missing = {}
    for c in cases:
        if c.tag not in inv_idx:
            missing[c.tag] = ["<type not emitted>"]
            continue
        out.append(f'  {{ type X = b::{c.tag}; println!("T {c.tag} {{}} {{}}", size_of::<X>(), align_of::<X>()); /*{c.tag}*/')
        out.append(f"    let mut u = Buf([0u8; size_of::<X>()]); let p = u.0.as_mut_ptr() as *mut X; unsafe {{ /*{c.tag}*/")
        for idx, (f, kind) in enumerate(c.fields()):
            if kind.startswith("bits"):
                continue
            path = resolve_field(inv_idx, c.tag, f)
            if path is None:
                missing.setdefault(c.tag, []).append(f)
                continue
            acc = ".".join(path)
            fty = field_ty(inv_idx, c.tag, path) or ""
            if fty.startswith("__BindgenUnionField<") or "::__BindgenUnionField<" in fty:
                out.append(f'      println!("F {c.tag} {f} {{}} -1", (addr_of!((*p).{acc}) as usize) - (p as usize)); /*{c.tag}*/')
                continue
            out.append(f'      println!("F {c.tag} {f} {{}} {{}}", (addr_of!((*p).{acc}) as usize) - (p as usize), psz(addr_of!((*p).{acc}))); /*{c.tag}*/')
        out.append(f"    }} }} /*{c.tag}*/")
    out.append("}")
    return "\n".join(out), missing


# --------------------------------------------------------------------------------------------------
# compile-only pipeline (C01 / C06 / C08 / C10): bindings with their embedded assertions must type-check

def use_contexts(c):
    """Declarations that use record `c` in every position the property lists."""
    t, n = c.tag, c.c_name()
    flex = any(k in ("flex",) for k in c.atoms)
    by_value = "" if flex else f"{n} m; {n} a[2]; "
    fn = f"void {t}_fp({n} *p);" if flex else f"{n} {t}_f({n} v, {t}_t *p, const {n} *cp);"
    glob = "" if flex else f"extern {n} {t}_g; extern const {n} {t}_cg;"
    return (f"typedef {n} {t}_t; struct {t}_use {{ {by_value}{n} *p; {t}_t *tp; int (*cb)({n} *); }};\n{fn}\n{glob}")


def compile_batches(batches, wd, flags, lang="c", contexts=True, edition="2021", prelude="", extra_src="", timeout=180):
    """batches: [(name, [case with .tag/.source()])]. Returns ({tag: None | [error messages]}, {name: gen result})."""
    os.makedirs(wd, exist_ok=True)
    ext = "h" if lang == "c" else "hpp"
    cl = ["--", "-x", "c++", "-std=c++14"] if lang == "cpp" else []

    def header_of(cases):
        parts = []
        for c in cases:
            parts.append(c.source())
            if contexts and hasattr(c, "atoms"):
                parts.append(use_contexts(c))
        return "\n".join(parts) + "\n" + extra_src

    jobs = []
    for name, cases in batches:
        hp = os.path.join(wd, f"{name}.{ext}")
        with open(hp, "w") as f:
            f.write(header_of(cases))
        jobs.append({"id": name, "args": [hp, "--formatter", "prettyplease"] + list(flags) + cl, "timeout": timeout})
    gen = common.run_jobs(jobs, wd, timeout=timeout)

    def one(b):
        name, cases = b
        res = {c.tag: None for c in cases}
        g = gen[name]
        live = list(cases)
        for attempt in range(5):
            if g["status"] != "ok":
                for c in live:
                    res[c.tag] = [f"bindgen: {g['status']} {g.get('err') or g.get('panic') or ''}"[:300]]
                return res
            bpath = os.path.join(wd, f"{name}_b{attempt}.rs")
            with open(bpath, "w") as f:
                f.write(prelude + g["text"])
            ok, tags, msgs = rustc_diagnose(bpath, os.path.join(wd, f"{name}_out"), prelude + g["text"], bpath, mode="lib", edition=edition)
            if ok:
                return res
            bad = [c for c in live if c.tag in tags]
            bt = last_by_tag()
            if not bad:
                if len(live) == 1:
                    res[live[0].tag] = sorted(set(msgs))[:4]
                    return res
                # cannot attribute by span: split in halves
                half = len(live) // 2
                sub = {}
                for k, part in enumerate((live[:half], live[half:])):
                    r, _ = compile_batches([(f"{name}_s{attempt}{k}", part)], wd, flags, lang, contexts, edition, prelude, extra_src, timeout)
                    sub.update(r)
                res.update(sub)
                return res
            for c in bad:
                res[c.tag] = sorted(set(bt.get(c.tag) or msgs[:2]))[:4]
            live = [c for c in live if c.tag not in tags]
            if not live:
                return res
            hp = os.path.join(wd, f"{name}_r{attempt}.{ext}")
            with open(hp, "w") as f:
                f.write(header_of(live))
            g = common.run_jobs([{"id": name, "args": [hp, "--formatter", "prettyplease"] + list(flags) + cl, "timeout": timeout}], wd, threads=1, timeout=timeout)[name]
        for c in live:
            if res[c.tag] is None:
                res[c.tag] = ["unattributed after 5 rounds"]
        return res

    out = {}
    for r in common.pmap(one, batches):
        out.update(r)
    return out, gen


def run_batches_ex(batches, wd, flags, lang="c", raw_lines_fn=None, keep_layout_tests=True, extra_c_cases_fn=None, callbacks=None, timeout=180):
    """Three-phase variant: (1) C probes, (2) bindgen with per-batch raw lines computed from the C numbers,
    (3) Rust probe (numbers only) with error isolation. extra_c_cases_fn(cases) -> additional cases measured on the C side only.
    Returns ({tag: {"c","r","rust_error","missing","gen"}}, {batch name: (gen result, C transcript)})."""
    os.makedirs(wd, exist_ok=True)
    ext = "h" if lang == "c" else "hpp"
    cl = ["--", "-x", "c++", "-std=c++14"] if lang == "cpp" else []

    def cphase(b):
        name, cases = b
        hp = os.path.join(wd, f"{name}.{ext}")
        with open(hp, "w") as f:
            f.write("\n".join(c.source() for c in cases) + "\n")
        allc = list(cases) + (extra_c_cases_fn(cases) if extra_c_cases_fn else [])
        cp = os.path.join(wd, f"{name}_probe.c")
        with open(cp, "w") as f:
            f.write(c_probe_source(allc, os.path.basename(hp)))
        exe = os.path.join(wd, f"{name}_cprobe")
        rc, _, err = common.clang((["-x", "c++", "-std=c++14"] if lang == "cpp" else ["-std=gnu11"]) + ["-w", "-O0", "-o", exe, cp], cwd=wd)
        if rc != 0:
            raise common.Machinery(f"generated C probe does not compile ({name}): {err[:1500]}")
        return name, parse_transcript(common.sh([exe], timeout=120).stdout.decode())

    ctrs = dict(common.pmap(cphase, batches))
    jobs = []
    for name, cases in batches:
        j = {"id": name, "args": [os.path.join(wd, f"{name}.{ext}"), "--formatter", "prettyplease"] + ([] if keep_layout_tests else ["--no-layout-tests"]) + list(flags) + cl,
             "inventory": True, "timeout": timeout}
        if raw_lines_fn:
            j["raw_lines"] = raw_lines_fn(name, cases, ctrs[name])
        if callbacks:
            j["callbacks"] = callbacks
        jobs.append(j)
    gen = common.run_jobs(jobs, wd, timeout=timeout)

    def rphase(b):
        name, cases = b
        g = gen[name]
        res = {c.tag: {"c": ctrs[name].get(c.tag), "r": None, "rust_error": None, "missing": [], "gen": g["status"]} for c in cases}
        if g["status"] != "ok":
            for c in cases:
                res[c.tag]["gen_detail"] = g.get("err") or g.get("panic")
            return res
        bpath = os.path.join(wd, f"{name}_bindings.rs")
        with open(bpath, "w") as f:
            f.write(g["text"])
        idx = index_inventory(g["inventory"])
        live = list(cases)
        for attempt in range(3):
            src, missing = rust_probe_source_numbers(live, idx, bpath)
            for t, m in missing.items():
                res[t]["missing"] = m
            mp = os.path.join(wd, f"{name}_probe.rs")
            with open(mp, "w") as f:
                f.write(src)
            rexe = os.path.join(wd, f"{name}_rprobe")
            ok, tags, msgs = rustc_diagnose(mp, rexe, g["text"], bpath)
            if ok:
                rtr = parse_transcript(common.sh([rexe], timeout=120).stdout.decode())
                for c in live:
                    res[c.tag]["r"] = rtr.get(c.tag)
                break
            bt = last_by_tag()
            # errors inside the bindings cannot be removed without regenerating: attribute and stop; errors in the probe only drop cases
            bad = [c for c in live if c.tag in tags]
            if not bad:
                for c in live:
                    res[c.tag]["rust_error"] = ["unattributed: " + "; ".join(sorted(set(msgs))[:3])]
                break
            for c in bad:
                res[c.tag]["rust_error"] = sorted(set(bt.get(c.tag) or msgs[:2]))[:4]
            live = [c for c in live if c.tag not in tags]
            # the bindings still contain the failing items: regenerate for the remaining cases only
            if live:
                sub, _ = run_batches_ex([(f"{name}_x{attempt}", live)], wd, flags, lang, raw_lines_fn, keep_layout_tests, extra_c_cases_fn, callbacks, timeout)
                res.update(sub)
            break
        return res

    out = {}
    for r in common.pmap(rphase, batches):
        out.update(r)
    return out, {n: (gen[n], ctrs[n]) for n, _ in batches}
