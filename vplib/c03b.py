"""C03 (b): generated records with bit-fields; C vs Rust transcripts. (filled in below)"""


def run(ck, only=None):
    return
