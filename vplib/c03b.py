"""C03 (b): generated records with bit-field runs - C program vs Rust program transcripts.

Explored: runs of 1..3 bit-fields over base types {char, unsigned char, short, unsigned short, int, unsigned,
long long, unsigned long long, _Bool, enum} and widths {1, 3, 7, 8, 9, 15, 16, 17, 31, 32, 33, 63, 64, full
width, :0 separators, unnamed padding fields}, optionally preceded / followed by a plain char or int member, in
{plain, packed, #pragma pack(1|2|4), aligned(8)} structs and in unions. For every field and every extreme value
(0, 1, max, min, -1) on a zero-filled and a 0xFF-filled object the same store is executed by a clang-built C
program (plain assignment) and by a rustc-built program (generated setter, raw setter; the allocation-unit
constructor on the zeroed object): object bytes and the values read back through every getter / raw getter
must be identical.
"""
import itertools
import os
import re

from . import common, probes
from .gen_c import rust_field

BASES = {"char": ("char", True, 8), "uchar": ("unsigned char", False, 8), "short": ("short", True, 16), "ushort": ("unsigned short", False, 16),
         "int": ("int", True, 32), "uint": ("unsigned", False, 32), "llong": ("long long", True, 64), "ullong": ("unsigned long long", False, 64),
         "bool": ("_Bool", False, 1), "enum": ("enum bfe", False, 32),
         # typedefs whose alignment is smaller than their size (the straddle rule must use the alignment, not the size)
         "ull4": ("ull4", False, 64), "ll2": ("ll2", True, 64), "uint2": ("uint2", False, 32),
         # the declared type written as typeof(constant expression): the constant is not the width
         "tof3u": ("__typeof__(3u)", False, 32), "tof9s": ("__typeof__((unsigned short)9)", False, 16)}
TYPEDEFS = ("typedef unsigned long long ull4 __attribute__((aligned(4))); typedef long long ll2 __attribute__((aligned(2))); "
            "typedef unsigned uint2 __attribute__((aligned(2)));\n")
WIDTHS = [1, 3, 7, 8, 9, 15, 16, 17, 31, 32, 33, 63, 64]
ATTRS = [("plain", "", "", ""), ("packed", "", "__attribute__((packed))", ""), ("pp1", "#pragma pack(push, 1)\n", "", "\n#pragma pack(pop)"),
         ("pp2", "#pragma pack(push, 2)\n", "", "\n#pragma pack(pop)"), ("pp4", "#pragma pack(push, 4)\n", "", "\n#pragma pack(pop)"),
         ("al8", "", "__attribute__((aligned(8)))", "")]


class BFCase:
    def __init__(self, tag, kind, attr, members):
        """members: list of ("bf", base, width, name) | ("plain", ctype, name) | ("sep", base) | ("pad", base, width)"""
        self.tag, self.kind, self.attr, self.members = tag, kind, attr, members
        desc = []
        for m in members:
            if m[0] == "bf":
                desc.append(f"{m[1]}:{m[2]}")
            elif m[0] == "plain":
                desc.append(m[1].replace(" ", "_"))
            elif m[0] == "sep":
                desc.append(f"{m[1]}:0")
            else:
                desc.append(f"{m[1]}:{m[2]}pad")
        self.cid = f"bf-{kind}[{attr}]({','.join(desc)})"
        self.atoms, self.rattr, self.mattr = [], attr, ""

    def c_name(self):
        return f"{self.kind} {self.tag}"

    def bitfields(self):
        return [(m[3], m[1], m[2]) for m in self.members if m[0] == "bf"]

    def plains(self):
        return [(m[2], m[1]) for m in self.members if m[0] == "plain"]

    def source(self):
        pre, a, post = next((p, x, q) for (k, p, x, q) in ATTRS if k == self.attr)
        body = []
        for m in self.members:
            if m[0] == "bf":
                body.append(f"{BASES[m[1]][0]} {m[3]}:{m[2]};")
            elif m[0] == "plain":
                body.append(f"{m[1]} {m[2]};")
            elif m[0] == "sep":
                body.append(f"{BASES[m[1]][0]} :0;")
            else:
                body.append(f"{BASES[m[1]][0]} :{m[2]};")
        return f"{pre}{self.kind} {a} {self.tag} {{ {' '.join(body)} }};{post}"


class TplCase(BFCase):
    """The same record as a C++ CLASS TEMPLATE (clang reports no field offsets for a dependent record, so bindgen places the
    bit-fields itself), instantiated with char; the template parameter is the type of a trailing member (the bit-fields start at offset 0, where the missing alignment of the dependent record does not move them)."""
    lang = "cpp"

    def __init__(self, tag, attr, members):
        BFCase.__init__(self, tag, "struct", attr, members)
        self.cid = "tpl-" + self.cid

    def c_name(self):
        return f"{self.tag}<char>"

    def rust_ty(self):
        return f"A_{self.tag}"

    def rust_alias(self):
        return f"type A_{self.tag} = b::{self.tag}<::std::os::raw::c_char>;"

    def source(self):
        pre, a, post = next((p, x, q) for (k, p, x, q) in ATTRS if k == self.attr)
        inner = BFCase.source(self)
        body = inner[inner.index("{") + 1:inner.rindex("}")]
        body = body.replace("_Bool", "bool")
        return f"{pre}template <class T> struct {a} {self.tag} {{ {body} T tpl_t; }};{post}\nstruct Use_{self.tag} {{ {self.tag}<char> x; }};"


class BigRunCase(BFCase):
    """One run of consecutive bit-fields longer than 2^16 bits (2 100 x (29 + 3) bits, `:0` separators on 32-bit boundaries are
    layout-neutral): only the first and the last few fields are exercised, the rest is filler between them."""

    def __init__(self, tag, attr, pairs=2100):
        ms = []
        for k in range(pairs):
            ms += [("bf", "uint", 29, f"fld{k}"), ("bf", "uint", 3, f"tag{k}"), ("sep", "uint")]
        ms += [("bf", "uint", 5, "probe_a"), ("bf", "uint", 11, "probe_b"), ("bf", "ullong", 40, "probe_c")]
        BFCase.__init__(self, tag, "struct", attr, ms)
        self.cid = f"bf-bigrun[{attr}]({pairs}x(uint:29,uint:3,uint:0),uint:5,uint:11,ullong:40)"
        self.pairs = pairs

    def bitfields(self):
        allf = BFCase.bitfields(self)
        pick = {"fld0", "tag0", f"fld{self.pairs // 2 + 1}", f"tag{self.pairs - 1}", f"fld{self.pairs - 1}", "probe_a", "probe_b", "probe_c"}
        return [x for x in allf if x[0] in pick]


def values(base, width):
    _, signed, bits = BASES[base]
    if base == "bool":
        return [0, 1]
    if base == "enum":
        return sorted({0, 1, (1 << width) - 1, (1 << (width - 1))})
    if signed:
        vs = {0, -1, -(1 << (width - 1)), (1 << (width - 1)) - 1}
        if width > 1:
            vs.add(1)
        return sorted(vs)
    return sorted({0, 1, (1 << width) - 1, 1 << (width - 1)})


def family(tier, seed):
    out = []
    n = [0]

    def add(kind, attr, members):
        n[0] += 1
        out.append(BFCase(f"K{n[0]}", kind, attr, members))

    def widths_for(base):
        return [w for w in WIDTHS if w <= BASES[base][2]] if base not in ("bool",) else [1]

    bases = list(BASES)
    # single fields, every base x every width x every attribute, struct and union, bare and surrounded by plain members
    for b in bases:
        for w in widths_for(b):
            for attr, _, _, _ in ATTRS:
                add("struct", attr, [("bf", b, w, "f0")])
                if b.startswith("tof"):
                    # typeof-spelled types: the field alone and next to a second one (placement after a plain member is the
                    # subject of the other bases)
                    if attr in ("plain", "packed"):
                        add("struct", attr, [("bf", b, w, "f0"), ("bf", b, max(1, w // 2), "f1")])
                    continue
                add("struct", attr, [("plain", "char", "pre"), ("bf", b, w, "f0"), ("plain", "int", "post")])
                if attr in ("plain", "packed", "pp2"):
                    add("union", attr, [("bf", b, w, "f0"), ("plain", "int", "other")])
    # pairs: all (base, width) x (base, width) over reduced sets, in plain / packed / pp2 structs
    pb = ["uchar", "short", "uint", "llong", "ullong", "bool"]
    pw = [1, 3, 8, 9, 31, 33, 63, 64]
    pairs = [(b, w) for b in pb for w in pw if w <= BASES[b][2] and (b != "bool" or w == 1)]
    if tier == "quick":
        pairs = [p for k, p in enumerate(pairs) if (k + seed) % 2 == 0]
    for (b1, w1), (b2, w2) in itertools.product(pairs, repeat=2):
        for attr in ("plain", "packed", "pp2", "pp4"):
            add("struct", attr, [("bf", b1, w1, "f0"), ("bf", b2, w2, "f1")])
    # triples with separators and unnamed padding fields, interleaved plain members
    tb = [("uint", 3), ("uint", 30), ("ushort", 9), ("ullong", 60), ("int", 17), ("char", 7), ("llong", 33)]
    for (b1, w1), (b2, w2), (b3, w3) in itertools.product(tb, repeat=3):
        if tier == "quick" and (int(common.sha(repr((b1, w1, b2, w2, b3, w3))), 16) + seed) % 6:
            continue
        for attr in ("plain", "packed", "pp2", "pp4", "al8"):
            add("struct", attr, [("bf", b1, w1, "f0"), ("bf", b2, w2, "f1"), ("bf", b3, w3, "f2")])
        add("struct", "plain", [("bf", b1, w1, "f0"), ("sep", b2), ("bf", b2, w2, "f1"), ("bf", b3, w3, "f2")])
        add("struct", "plain", [("bf", b1, w1, "f0"), ("pad", "uint", 5), ("bf", b2, w2, "f1"), ("plain", "char", "mid"), ("bf", b3, w3, "f2")])
        add("struct", "pp2", [("plain", "char", "pre"), ("bf", b1, w1, "f0"), ("bf", b2, w2, "f1"), ("plain", "short", "mid"), ("bf", b3, w3, "f2")])
    # under-aligned base types: a leading field of every width class, then two fields of the under-aligned type
    for ua in ("ull4", "ll2", "uint2"):
        bits = BASES[ua][2]
        for w0 in (8, 16, 24, 32):
            for w1, w2 in itertools.product((5, 12, 20, 31, 33, 44), repeat=2):
                if w1 > bits or w2 > bits:
                    continue
                if tier == "quick" and (w0 + w1 + w2 + seed) % 3:
                    continue
                add("struct", "plain", [("bf", "uint", w0, "f0"), ("bf", ua, w1, "f1"), ("bf", ua, w2, "f2"), ("plain", "char", "post")])
        add("struct", "plain", [("bf", ua, 7, "f0")])
        add("struct", "plain", [("plain", "char", "pre"), ("bf", ua, 9, "f0"), ("bf", ua, 20, "f1")])
    # runs longer than 64 bits followed by a zero-width separator of EVERY type and then a field of every type class
    runs = [[("ullong", 40), ("ullong", 35)], [("ullong", 60), ("ullong", 60)], [("uint", 30), ("uint", 30), ("uint", 9)], [("uint", 3)], [("ullong", 64), ("char", 3)]]
    for ri, run in enumerate(runs):
        for sb in ("char", "short", "int", "llong"):
            for nb, nw in (("uint", 30), ("ullong", 40), ("ushort", 9), ("uint", 3), ("char", 7), ("ullong", 64)):
                if tier == "quick" and (ri + len(sb) + nw + seed) % 2:
                    continue
                ms = [("bf", b, w, f"f{k}") for k, (b, w) in enumerate(run)] + [("sep", sb), ("bf", nb, nw, f"f{len(run)}")]
                add("struct", "plain", ms)
                add("struct", "plain", ms + [("bf", "uint", 5, f"f{len(run) + 1}"), ("plain", "char", "post")])
    out.append(BigRunCase(f"K{n[0] + 1}", "plain"))
    n[0] += 1
    return out


C_PRE = probes.C_PRELUDE + "\nenum bfe { BFE_A, BFE_B = 1 };\n"


def c_program(cases, header):
    out = [C_PRE, f'#include "{header}"', "int main(void) {"]
    for c in cases:
        T = c.c_name()
        bfs = c.bitfields()
        for fi, (f, b, w) in enumerate(bfs):
            for vi, v in enumerate(values(b, w)):
                for fill in (0, 255):
                    lit = f"({BASES[b][0]})({v}LL)" if b != "enum" else f"(enum bfe){v}u"
                    if b == "ullong" or (not BASES[b][1] and b != "enum"):
                        lit = f"({BASES[b][0]})({v}ULL)"
                    out.append(f"  {{ {T} s; memset(&s, {fill}, sizeof s); s.{f} = {lit}; printf(\"W {c.tag} {fi} {vi} {fill} \"); dump(\"\", &s, sizeof s);")
                    reads = " ".join((f'printf("R {c.tag} {fi} {vi} {fill} {g} %lld\\n", (long long)s.{g});' if BASES[gb][1] else
                                      f'printf("R {c.tag} {fi} {vi} {fill} {g} %llu\\n", (unsigned long long)s.{g});') for (g, gb, gw) in bfs)
                    out.append(f"    {reads} }}")
        # constructor image: all fields assigned on a zeroed object
        assigns = " ".join(f"s.{f} = ({BASES[b][0] if b != 'enum' else 'enum bfe'})({values(b, w)[-1]}{'ULL' if not BASES[b][1] else 'LL'});" for (f, b, w) in bfs)
        out.append(f"  {{ {T} s; memset(&s, 0, sizeof s); {assigns} printf(\"C {c.tag} \"); dump(\"\", &s, sizeof s); }}")
    out.append("  return 0; }")
    return "\n".join(out)


def rust_program(cases, idx, bpath, impls):
    out = [probes.RUST_PRELUDE.replace("@BINDINGS@", bpath),
           "fn hexof<T>(p: *const T) -> String { let n = size_of::<T>(); let b = unsafe { std::slice::from_raw_parts(p as *const u8, n) }; b.iter().map(|x| format!(\"{:02x}\", x)).collect() }"]
    calls = []
    missing = {}
    for c in cases:
        if c.tag not in idx:
            missing[c.tag] = "type not emitted"
            continue
        methods = impls.get(c.tag, set())
        bfs = c.bitfields()
        need = set()
        for f, b, w in bfs:
            rf = rust_field(f)
            need |= {rf, f"set_{f}", f"{f}_raw", f"set_{f}_raw"}
        if not need <= methods:
            missing[c.tag] = f"accessors missing: {sorted(need - methods)[:4]}"
            continue
        X = c.rust_ty() if hasattr(c, "rust_ty") else f"b::{c.tag}"
        if hasattr(c, "rust_alias"):
            out.append(c.rust_alias() + f" /*{c.tag}*/")
        # one function per (case, field): a panic (debug assertion in the accessor) loses only that field's transcript
        for fi, (f, b, w) in enumerate(bfs):
            body = []
            for vi, v in enumerate(values(b, w)):
                for fill in (0, 255):
                    val = ("true" if v else "false") if b == "bool" else (f"({v}i128) as _")
                    for mode in ("set", "raw"):
                        store = f"(*p).set_{f}({val});" if mode == "set" else f"{X}::set_{f}_raw(p, {val});"
                        tagm = "W" if mode == "set" else "WR"
                        body.append(f"  {{ let mut u = Buf([{fill}u8; size_of::<{X}>()]); let p = u.0.as_mut_ptr() as *mut {X}; unsafe {{ {store} }} println!(\"{tagm} {c.tag} {fi} {vi} {fill} D  {{}}\", hexof(p)); /*{c.tag}*/")
                        for (g, gb, gw) in bfs:
                            rd = f"(*p).{rust_field(g)}()" if mode == "set" else f"{X}::{g}_raw(p)"
                            body.append(f"    println!(\"{'R' if mode == 'set' else 'RR'} {c.tag} {fi} {vi} {fill} {g} {{}}\", unsafe {{ {rd} }} as i128); /*{c.tag}*/")
                        body.append(f"  }} /*{c.tag}*/")
            out.append(f"#[inline(never)] fn case_{c.tag}_{fi}() {{ /*{c.tag}*/\n" + "\n".join(body) + f"\n}} /*{c.tag}*/")
            calls.append(f"  if std::panic::catch_unwind(case_{c.tag}_{fi}).is_err() {{ println!(\"PANIC {c.tag} {fi}\"); }}")
    out.append("fn main() {\n  std::panic::set_hook(Box::new(|_| {}));\n" + "\n".join(calls) + "\n}")
    return "\n".join(out), missing


def parse(text):
    W, R = {}, {}
    for line in text.splitlines():
        p = line.split()
        if not p:
            continue
        if p[0] in ("W", "WR"):
            W[(p[0], p[1], p[2], p[3], p[4])] = p[-1]
        elif p[0] in ("R", "RR"):
            R[(p[0], p[1], p[2], p[3], p[4], p[5])] = p[6]
        elif p[0] == "C":
            W[("C", p[1])] = p[-1]
        elif p[0] == "PANIC":
            W[("PANIC", p[1], p[2])] = "1"
    return W, R


def run(ck, only=None):
    if only and only.get("kind") != "record":
        return
    wd = os.path.join(ck.wd, "records")
    os.makedirs(wd, exist_ok=True)
    cases = family(ck.tier, ck.seed)
    # the same records as C++ class templates (structs under plain / packed attributes; a stable third in the quick tier)
    tpl = []
    for c in cases:
        if c.kind == "struct" and c.attr in ("plain", "packed") and not isinstance(c, BigRunCase) and (ck.tier == "thorough" or int(common.sha(c.cid), 16) % 3 == 0):
            tpl.append(TplCase("K" + str(900000 + int(c.tag[1:])), c.attr, c.members))
    if only:
        cases = [c for c in cases + tpl if c.cid == only.get("cid")]
        tpl = [c for c in cases if isinstance(c, TplCase)]
        cases = [c for c in cases if not isinstance(c, TplCase)]
    B = 120
    batches = [(f"r{i // B}", cases[i:i + B]) for i in range(0, len(cases), B)] + [(f"t{i // B}", tpl[i:i + B]) for i in range(0, len(tpl), B)]
    jobs = []
    for name, cs in batches:
        cpp = name.startswith("t")
        hp = os.path.join(wd, f"{name}.{'hpp' if cpp else 'h'}")
        open(hp, "w").write("enum bfe { BFE_A, BFE_B = 1 };\n" + TYPEDEFS + "\n".join(c.source() for c in cs) + "\n")
        jobs.append({"id": name, "args": [hp, "--formatter", "prettyplease", "--no-layout-tests"] + (["--", "-x", "c++", "-std=c++14"] if cpp else []), "inventory": True, "timeout": 180})
    gen = common.run_jobs(jobs, wd, timeout=180)

    def one(b):
        name, cs = b
        res = []
        g = gen[name]
        if g["status"] != "ok":
            return [(c, "generation-failed", str(g.get("err") or g.get("panic"))[:200], None) for c in cs]
        cpp = name.startswith("t")
        cp = os.path.join(wd, f"{name}.{'cc' if cpp else 'c'}")
        ctext = c_program(cs, f"{name}.{'hpp' if cpp else 'h'}").replace("enum bfe { BFE_A, BFE_B = 1 };\n", "", 1)
        open(cp, "w").write(ctext.replace("_Bool", "bool") if cpp else ctext)
        exe = os.path.join(wd, f"{name}_c")
        rc, _, err = common.clang((["-x", "c++", "-std=c++14"] if cpp else ["-std=gnu11"]) + ["-w", "-O0", "-o", exe, cp], cwd=wd)
        if rc != 0:
            raise common.Machinery(f"C03b C program does not compile: {err[:800]}")
        cW, cR = parse(common.sh([exe], timeout=300).stdout.decode())
        bp = os.path.join(wd, f"{name}_b.rs")
        open(bp, "w").write(g["text"])
        idx = probes.index_inventory(g["inventory"])
        impls = {}
        for it in g["inventory"]["items"]:
            if it["kind"] == "impl" and it.get("trait") is None:
                impls.setdefault(it["self_ty"].split("<")[0].strip(), set()).update(x["name"] for x in it["items"] if x["kind"] == "fn")
        live = list(cs)
        rW = rR = None
        for attempt in range(4):
            src, missing = rust_program(live, idx, bp, impls)
            for t, why in missing.items():
                c = next(x for x in cs if x.tag == t)
                res.append((c, "no-accessors", why, None))
            live = [c for c in live if c.tag not in missing]
            mp = os.path.join(wd, f"{name}_main.rs")
            open(mp, "w").write(src)
            rexe = os.path.join(wd, f"{name}_r")
            ok, tags, msgs = probes.rustc_diagnose(mp, rexe, g["text"], bp)
            if ok:
                p = common.sh([rexe], timeout=600)
                if p.returncode != 0:
                    return res + [(c, "rust-program-crashed", p.stderr.decode()[-200:], None) for c in live]
                rW, rR = parse(p.stdout.decode())
                break
            bad = [c for c in live if c.tag in tags]
            if not bad:
                return res + [(c, "rust-rejects", "; ".join(sorted(set(msgs))[:2])[:200], None) for c in live]
            bt = probes.last_by_tag()
            for c in bad:
                res.append((c, "rust-rejects", " | ".join(sorted(set(bt.get(c.tag, msgs[:2]))))[:250], None))
            live = [c for c in live if c.tag not in tags]
        if rW is None:
            return res
        size_only = set()
        for c in live:
            bfs = c.bitfields()
            for fi, (f, b, w) in enumerate(bfs):
                probs = None
                classes = set()
                if ("PANIC", c.tag, str(fi)) in rW:
                    classes.add("panic")
                    probs = f"accessor of {f} ({BASES[b][0]}:{w}) panics (debug assertion / out-of-range access in the bit-field unit)"
                for vi, v in enumerate(values(b, w)):
                    for fill in ("0", "255"):
                        cw = cW.get(("W", c.tag, str(fi), str(vi), fill))
                        for mode, rk in (("W", "R"), ("WR", "RR")):
                            rw = rW.get((mode, c.tag, str(fi), str(vi), fill))
                            if isinstance(c, TplCase) and cw and rw and len(cw) > len(rw) and cw.startswith(rw) and set(cw[len(rw):]) <= set(f"{int(fill):02x}"):
                                # a class template's Rust type can be SHORTER than the instantiation (no layout is known for the
                                # dependent record): a size defect (C02's subject, recorded once as a finding), not a bit placement one.
                                # The common prefix is what the accessors touch; C leaves the rest at the fill value.
                                size_only.add(c.cid)
                                rw = cw
                            if cw != rw:
                                classes.add("store")
                                probs = probs or f"{'setter' if mode == 'W' else 'raw setter'} of {f} ({BASES[b][0]}:{w}) value {v} on 0x{int(fill):02x}-filled object: C bytes {cw} Rust bytes {rw}"
                            for (g2, gb, gw) in bfs:
                                cr = cR.get(("R", c.tag, str(fi), str(vi), fill, g2))
                                rr = rR.get((rk, c.tag, str(fi), str(vi), fill, g2))
                                if cr != rr and cw == rw:
                                    signed_g = BASES[gb][1]
                                    if signed_g and cr is not None and rr is not None and int(cr) < 0 and int(rr) == int(cr) + (1 << gw):
                                        classes.add("sign-extension")
                                    else:
                                        classes.add("read")
                                    probs = probs or f"{'getter' if rk == 'R' else 'raw getter'} of {g2} ({BASES[gb][0]}:{gw}) after storing {v} into {f}: C reads {cr} Rust reads {rr}"
                if probs:
                    # bit offset of the field as C lays it out (lowest set bit after storing all-ones on a zeroed object)
                    allv = values(b, w)
                    ones = allv.index(-1) if BASES[b][1] else allv.index(max(allv))
                    allone = cW.get(("W", c.tag, str(fi), str(ones), "0"))
                    off = None
                    if allone:
                        bits = int.from_bytes(bytes.fromhex(allone), "little")
                        off = (bits & -bits).bit_length() - 1 if bits else None
                    res.append((c, f"field {f}", probs, (off, w, "+".join(sorted(classes)))))
        for c in live:
            if c.cid in size_only:
                res.append((c, "template-record-shorter-than-instantiation", "the Rust type of the class template is smaller than the C++ instantiation (accessors agree on the common prefix)", (None, 0, "tpl-size")))
        return res

    for name, cs in batches:
        for c in cs:
            ck.count()
            if len(c.bitfields()) > 1 or c.attr != "plain" or c.plains():
                ck.nontriv(c.cid)
    for results in common.pmap(one, batches):
        seen = set()
        for c, what, why, ow in results:
            key = (c.cid, what)
            if key in seen:
                continue
            seen.add(key)
            pred = None
            if ow and ow[2] == "tpl-size":
                pred = "class-template-record-without-layout-is-shorter"
            elif ow and ow[2] == "sign-extension":
                pred = "signed-bitfield-no-sign-extension"
            elif ow and ow[0] is not None and ow[0] % 8 + ow[1] > 64:
                pred = "needs-ninth-byte"
            elif what in ("rust-rejects", "no-accessors", "generation-failed"):
                pred = f"record-{what}|{c.kind}|{c.attr}"
            else:
                pred = f"record-mismatch|{ow[2] if ow else ''}|{c.kind}|{c.attr}"
            ck.violation(f"{c.cid} {what}", {"kind": "record", "cid": c.cid, "predicate": pred, "source": c.source(), "why": why})
    ck.extra["bitfield_records"] = len(cases)
