"""C05 - constants carry the C compiler's value in a type that can hold it.

Explored: object-like macros from a typed expression grammar up to depth 1 (every unary operator on every
literal, every binary operator on every pair of a literal sub-alphabet, ternaries, casts, sizeof, references
to earlier macros, redefinitions), enums (value tuples x fixed underlying types x 7 enum styles), const
variables; x {default, signed default type, fit-macro-constant-types (+signed), clang-macro-fallback}.
Oracle: clang's own constant folding of the same header (`-S -emit-llvm`, nothing executed): value and C type
of every macro; an emitted constant must have that value and a Rust type whose range contains it; omission is
always acceptable. Mismatches are attributed to the known untyped-wrapping-i64 evaluation of the external
`cexpr` crate iff bindgen's value equals the M64 reference evaluator's.
"""
import itertools
import os
import re

from . import common
from .common import Check

LEVEL = "exploration"

DEC = ["0", "1", "7", "255", "256", "65535", "65536", "2147483647", "2147483648", "4294967295", "4294967296", "9223372036854775807"]
HEX = ["0x0", "0x7f", "0x80", "0xff", "0xffff", "0x7fffffff", "0x80000000", "0xffffffff", "0x100000000", "0x7fffffffffffffff",
       "0x8000000000000000", "0xffffffffffffffff"]
OCT = ["017", "0377", "037777777777"]
BIN = ["0b101", "0b11111111"]
SUF = ["", "u", "l", "ul", "ll", "ull", "U", "LL", "uLL"]
SUB = ["0", "1", "2", "7", "31", "63", "64", "255", "0x80000000", "0xffffffffu", "2147483647", "1u", "1ull", "0xffffffffffffffffull", "9223372036854775807"]
UNARY = ["-", "~", "!"]
BINARY = ["+", "-", "*", "/", "%", "<<", ">>", "&", "|", "^", "&&", "||", "<", ">", "<=", ">=", "==", "!="]
RANGE = {"i8": (-2**7, 2**7 - 1), "u8": (0, 2**8 - 1), "i16": (-2**15, 2**15 - 1), "u16": (0, 2**16 - 1), "i32": (-2**31, 2**31 - 1),
         "u32": (0, 2**32 - 1), "i64": (-2**63, 2**63 - 1), "u64": (0, 2**64 - 1), "i128": (-2**127, 2**127 - 1), "u128": (0, 2**128 - 1),
         "c_int": (-2**31, 2**31 - 1), "c_uint": (0, 2**32 - 1), "c_long": (-2**63, 2**63 - 1), "c_ulong": (0, 2**64 - 1),
         "c_longlong": (-2**63, 2**63 - 1), "c_ulonglong": (0, 2**64 - 1), "c_short": (-2**15, 2**15 - 1), "c_ushort": (0, 2**16 - 1),
         "c_char": (-2**7, 2**7 - 1), "c_schar": (-2**7, 2**7 - 1), "c_uchar": (0, 2**8 - 1), "usize": (0, 2**64 - 1), "isize": (-2**63, 2**63 - 1),
         "bool": (0, 1)}


def lit_value(text):
    t = text.lower().rstrip("ul")
    if t.startswith("0x"):
        return int(t, 16)
    if t.startswith("0b"):
        return int(t[2:], 2)
    if len(t) > 1 and t.startswith("0"):
        return int(t, 8)
    return int(t)


def wrap(v):
    v &= (1 << 64) - 1
    return v - (1 << 64) if v >> 63 else v


class E:
    """Expression with C text and M64 value (untyped wrapping i64; None = the evaluator gives up)."""

    def __init__(self, text, m64):
        self.text, self.m64 = text, m64


def m64_binary(op, a, b):
    if a is None or b is None:
        return None
    if op == "+":
        return wrap(a + b)
    if op == "-":
        return wrap(a - b)
    if op == "*":
        return wrap(a * b)
    if op in ("/", "%"):
        if b == 0:
            return None
        q = abs(a) // abs(b) * (1 if (a < 0) == (b < 0) else -1)
        return wrap(q) if op == "/" else wrap(a - q * b)
    # cexpr shifts Wrapping<i64> by `count as usize`, which the Wrapping impl masks to 6 bits (also for negative counts)
    if op == "<<":
        return wrap(a << (b & 63))
    if op == ">>":
        return wrap(a >> (b & 63))
    if op == "&":
        return wrap(a & b)
    if op == "|":
        return wrap(a | b)
    if op == "^":
        return wrap(a ^ b)
    if op == "&&":
        return int(bool(a) and bool(b))
    if op == "||":
        return int(bool(a) or bool(b))
    return int({"<": a < b, ">": a > b, "<=": a <= b, ">=": a >= b, "==": a == b, "!=": a != b}[op])


def macros(tier):
    """[(name, C text, m64 value or None)] in definition order."""
    out = []

    def add(e):
        out.append((f"M{len(out)}", e.text, e.m64))
        return out[-1][0]

    lits = []
    for base in DEC + HEX + OCT + BIN:
        for s in SUF if (base in ("1", "255", "2147483648", "4294967295", "0xffffffff", "0x80000000", "0xffffffffffffffff", "0377") or tier == "thorough") else ["", "u", "ull"]:
            lits.append(E(base + s, wrap(lit_value(base))))
    lits.append(E("18446744073709551615u", -1))
    lits.append(E("18446744073709551615ULL", -1))
    for e in lits:
        add(e)
    for e in lits:
        for op in UNARY:
            v = e.m64
            add(E(f"{op}{e.text}", wrap(-v) if op == "-" else wrap(~v) if op == "~" else int(not v)))
            add(E(f"({op}({e.text}))", wrap(-v) if op == "-" else wrap(~v) if op == "~" else int(not v)))
    sub = [E(t, wrap(lit_value(t))) for t in SUB]
    if tier == "thorough":
        sub = sub + [E(t, wrap(lit_value(t))) for t in ("3", "8", "32", "65535", "4294967296", "0x7fffffffffffffff", "2u", "0x80000000u", "1ll", "-1"[1:] )]
    for a, b in itertools.product(sub, repeat=2):
        for op in BINARY:
            add(E(f"({a.text} {op} {b.text})", m64_binary(op, a.m64, b.m64)))
    if tier == "thorough":
        # depth 2: ((a op1 b) op2 c) and (a op1 (b op2 c)) over a 6-literal alphabet and all operator pairs
        six = [E(t, wrap(lit_value(t))) for t in ("1", "2", "31", "0x80000000", "0xffffffffu", "1ull")]
        for a, b, c in itertools.product(six, repeat=3):
            for op1 in BINARY:
                for op2 in BINARY:
                    add(E(f"(({a.text} {op1} {b.text}) {op2} {c.text})", m64_binary(op2, m64_binary(op1, a.m64, b.m64), c.m64)))
                    add(E(f"({a.text} {op1} ({b.text} {op2} {c.text}))", m64_binary(op1, a.m64, m64_binary(op2, b.m64, c.m64))))
    # negative left operands, nested, ternary, casts, sizeof, references, char literals
    for a in sub[:8]:
        for b in sub[:8]:
            for op in ("+", "-", "*", "/", "%", "<<", ">>", "<", "=="):
                add(E(f"(-{a.text} {op} {b.text})", m64_binary(op, wrap(-a.m64), b.m64)))
            add(E(f"({a.text} ? {b.text} : 42)", b.m64 if a.m64 else 42))
            add(E(f"(({a.text} + {b.text}) * 2)", wrap(wrap(a.m64 + b.m64) * 2)))
    for t, v in (("'a'", 97), ("'\\n'", 10), ("'\\377'", None), ("'\\x41'", 65), ("'\\0'", 0), ("L'a'", None), ("'ab'", None)):
        add(E(t, v))
    for t in ("(unsigned char)300", "(char)200", "(short)70000", "(long long)-1", "(unsigned)-1", "(unsigned long long)-1", "(int)3000000000u",
              "(unsigned short)65537", "(signed char)-129", "(_Bool)5"):
        add(E(t, None))
    for t in ("sizeof(int)", "sizeof(long)", "sizeof(char)", "(sizeof(int) * 8)", "sizeof(long long) - 1"):
        add(E(t, None))
    r1 = add(E("40", 40))
    add(E(f"({r1} + 2)", 42))
    add(E(f"(~{r1})", wrap(~40)))
    add(E(f"({r1} << 30)", wrap(40 << 30)))
    for t in ("1.5", "1e10", ".5f", "2.5L", "1.0e-3", "0x1p4", "-1.25", "(1.5 + 2)", "3.0f", "1e400"):
        add(E(t, None))
    return out


STRINGS = [("S0", '"hello"'), ("S1", '"a\\"b\\\\c"'), ("S2", '"tab\\there\\n"'), ("S3", '"\\x41\\101B"'), ("S4", '""'), ("S5", '"caf\\xc3\\xa9"'),
           ("S6", '"nul\\0inside"'), ("S7", '"concat" "enated"')]

GENERIC = ("_Generic((X), int: 1, unsigned: 2, long: 3, unsigned long: 4, long long: 5, unsigned long long: 6, float: 7, double: 8, long double: 9, "
           "char: 10, signed char: 11, unsigned char: 12, short: 13, unsigned short: 14, _Bool: 15, default: 0)")
CTYPE = {1: ("int", True, 32), 2: ("unsigned", False, 32), 3: ("long", True, 64), 4: ("unsigned long", False, 64), 5: ("long long", True, 64),
         6: ("unsigned long long", False, 64), 10: ("char", True, 8), 11: ("signed char", True, 8), 12: ("unsigned char", False, 8),
         13: ("short", True, 16), 14: ("unsigned short", False, 16), 15: ("_Bool", False, 8)}


FOLDED_DOUBLE = {}   # macro name -> (double)(macro) by clang, filled by clang_fold


# macros only clang can read (casts, sizeof), redefinitions from a literal to such a form, and macros that depend on them; values past 32
# bits and floating values through the same route
STATEFUL = """#define RW 4
#undef RW
#define RW ((int)sizeof(long long))
#define RW_AREA (RW * 2)
#define RC ((char)65)
#define RC_DEP (RC + 1)
#define RL ((long long)21474836480)
#define RNEG ((long long)-12884901888)
#define RL_DEP (RL / 2)
#define RSZ sizeof(int)
#define RSZ3 (RSZ * 3)
#define RU ((unsigned)4000000000)
#define RF ((double)1 / 2)
#define RF2 ((float)3 / 4)
#define RSH ((short)-2)
#define RB ((_Bool)7)
"""
STATEFUL_NAMES = ["RW", "RW_AREA", "RC", "RC_DEP", "RL", "RNEG", "RL_DEP", "RSZ", "RSZ3", "RU", "RF", "RF2", "RSH", "RB"]


def clang_fold(header, names, wd, tag):
    """For every macro name: (C type class, integer value) by clang constant folding; macros whose folding errors or warns are dropped."""
    live = list(names)
    dropped = {}
    for attempt in range(6):
        lines = [f'#include "{os.path.basename(header)}"']
        idx = {}
        for n in live:
            idx[len(lines) + 1] = n
            lines.append(f"const int k_{n} = " + GENERIC.replace("X", n) + f"; const unsigned long long v_{n} = (unsigned long long)({n}); const double d_{n} = (double)({n});")
        p = os.path.join(wd, f"fold_{tag}_{attempt}.c")
        open(p, "w").write("\n".join(lines) + "\n")
        rc, out, err = common.clang(["-S", "-emit-llvm", "-O0", "-Wall", "-Wextra", "-Wno-unused", "-ferror-limit=0", "-fno-caret-diagnostics", "-o", "-", p], cwd=wd, timeout=600)
        bad = {}
        for m in re.finditer(r"^[^:\n]*fold_[^:]*:(\d+):\d+: (error|warning): (.*)$", err, re.M):
            n = idx.get(int(m.group(1)))
            if n and (m.group(2) == "error" or "overflow" in m.group(3) or "shift" in m.group(3) or "division" in m.group(3) or "remainder" in m.group(3)
                      or "too large" in m.group(3) or "out of range" in m.group(3) or "changes value" in m.group(3) or "multi-character" in m.group(3)):
                bad[n] = m.group(3)
        # diagnostics that point into the header (macro expansion) carry "expanded from macro 'Mx'"
        for m in re.finditer(r"(error|warning): (.*)\n[^\n]*note: expanded from macro '(\w+)'", err):
            if m.group(3) in live and (m.group(1) == "error" or any(w in m.group(2) for w in ("overflow", "shift", "division", "remainder", "too large", "out of range", "changes value"))):
                bad[m.group(3)] = m.group(2)
        dropped.update(bad)
        if rc == 0 and not bad:
            res = {}
            for m in re.finditer(r"@(k|v)_(\w+) = .*?constant i(?:32|64) (-?\d+)", out):
                res.setdefault(m.group(2), {})[m.group(1)] = int(m.group(3))
            for m in re.finditer(r"@d_(\w+) = .*?constant double (\S+)", out):
                t = m.group(2).rstrip(",")
                import struct
                FOLDED_DOUBLE[m.group(1)] = struct.unpack(">d", bytes.fromhex(t[2:].rjust(16, "0")))[0] if t.startswith("0x") else float(t)
            return {n: (d.get("k"), d.get("v")) for n, d in res.items() if "k" in d and "v" in d}, dropped
        if not bad and rc != 0:
            raise common.Machinery("C05: clang cannot fold the macro table: " + err[:600])
        live = [n for n in live if n not in bad]
    raise common.Machinery("C05: clang folding did not settle")


def rust_consts(inv):
    """name -> (type string, value text) of every `pub const` in the inventory (flat)."""
    out = {}

    def walk(items):
        for it in items:
            if it["kind"] == "mod":
                walk(it["items"])
            elif it["kind"] == "const":
                out[it["name"]] = (it["ty"].replace(" ", ""), it["expr"])
    walk(inv["items"])
    return out


def parse_int(expr):
    e = expr.replace(" ", "").replace("_", "")
    m = re.fullmatch(r"(-?)(\d+)(?:[iu](?:8|16|32|64|128|size))?", e)
    if m:
        return int(m.group(1) + m.group(2))
    return None


def new_check(tier):
    return Check("C05", tier, LEVEL,
                 "cases = object-like macros from an expression grammar up to depth 1 (all unary ops x all literals, all 18 binary ops x all "
                 "pairs of a literal sub-alphabet, ternaries, casts, sizeof, references, characters, floats, strings), enum value tuples x "
                 "underlying types x 7 styles, const variables; x 5 option variants; non-trivial = macros whose value is not a plain literal")


VARIANTS = [("default", []), ("signed", ["--default-macro-constant-type", "signed"]), ("fit", ["--fit-macro-constant-types"]),
            ("fit-signed", ["--fit-macro-constant-types", "--default-macro-constant-type", "signed"]), ("fallback", ["--clang-macro-fallback"])]


def run(ck, only=None):
    wd = ck.wd
    ms = macros(ck.tier)
    hp = os.path.join(wd, "macros.h")
    with open(hp, "w") as f:
        for n, text, _ in ms:
            f.write(f"#define {n} {text}\n")
        f.write("#define REDEF 1\n#undef REDEF\n#define REDEF 2\n#define UNDEFD 5\n#undef UNDEFD\n#define CHAIN_A CHAIN_B\n#define CHAIN_B 9\n")
        f.write(STATEFUL)
        for n, t in STRINGS:
            f.write(f"#define {n} {t}\n")
    names = [n for n, _, _ in ms] + ["REDEF", "CHAIN_A", "CHAIN_B"] + STATEFUL_NAMES
    folded, dropped = clang_fold(hp, names, wd, "macros")
    m64 = {n: v for n, _, v in ms}
    m64.update({"REDEF": 2, "CHAIN_A": 9, "CHAIN_B": 9})
    text_of = {n: t for n, t, _ in ms}
    variants = VARIANTS if not only else [v for v in VARIANTS if v[0] == only.get("variant")]
    jobs = [{"id": v, "args": [hp, "--formatter", "none", "--no-layout-tests"] + fl + (["--clang-macro-fallback-build-dir", wd] if v == "fallback" else []),
             "inventory": True, "text": False, "timeout": 600} for v, fl in variants]
    res = common.run_jobs(jobs, wd, timeout=600)
    for v, fl in variants:
        r = res[v]
        if r["status"] != "ok":
            ck.violation(f"macros variant={v} generation-failed", {"variant": v, "why": str(r.get("err") or r.get("panic"))[:300]})
            continue
        consts = rust_consts(r["inventory"])
        emitted = 0
        for n in names:
            if only and only.get("macro") not in (None, n):
                continue
            ck.count()
            if n in text_of and not re.fullmatch(r"[0-9a-fxA-FXbuUlL]+", text_of[n]):
                ck.nontriv((n, v))
            if n not in consts:
                continue  # omission is always acceptable
            if n == "UNDEFD":
                continue
            emitted += 1
            ty, expr = consts[n]
            case = f"macro `{text_of.get(n, n)}` variant={v}"
            det = {"variant": v, "macro": n, "text": text_of.get(n, n)}
            if n not in folded:
                continue  # clang itself diagnoses this expression (overflow, bad shift, ...): excluded from value comparison
            k, cv = folded[n]
            if k in (7, 8, 9):
                # floating macro: must be emitted with a floating type and the C value (float literals are read as doubles by
                # bindgen: relative tolerance of one float ulp for `float`-typed macros, exact for double)
                cd = FOLDED_DOUBLE.get(n)
                tyk = ty.split("::")[-1]
                try:
                    fv = float(expr.replace(" ", "").replace("f64", "").replace("f32", "").replace("_", ""))
                except ValueError:
                    fv = None
                if cd is None:
                    continue
                if tyk not in ("f64", "f32"):
                    ck.violation(case, dict(det, predicate=None, why=f"floating macro (C value {cd!r}) emitted with integer type `{tyk} = {expr}`"))
                elif fv is None or (fv != cd and not (abs(fv - cd) <= abs(cd) * (1.2e-7 if k == 7 else 1e-15))):
                    ck.violation(case, dict(det, predicate=None, why=f"floating macro emitted as `{tyk} = {expr}`, C value {cd!r}"))
                continue
            if k not in CTYPE:
                continue
            cname, signed, bits = CTYPE[k]
            cval = cv & ((1 << 64) - 1)
            if signed and cv >> 63 & 1 or (signed and cval >= 1 << 63):
                cval -= 1 << 64
            if not signed:
                cval &= (1 << bits) - 1 if bits < 64 else (1 << 64) - 1
            rv = parse_int(expr)
            tyk = ty.split("::")[-1]
            if rv is None:
                ck.violation(case + " unparsable", dict(det, why=f"emitted as `{ty} = {expr}` which is not an integer although C says {cname} {cval}"))
                continue
            lo, hi = RANGE.get(tyk, (None, None))
            probs = []
            if rv != cval:
                probs.append(f"value {rv}, C ({cname}) value {cval}")
            if lo is not None and not (lo <= rv <= hi):
                probs.append(f"type {tyk} cannot hold {rv}")
            if probs:
                mv = m64.get(n)
                attributed = mv is not None and (rv == mv or (rv == mv & ((1 << 64) - 1)) or (tyk in ("u32", "u8", "u16") and mv >= 0 and rv == mv))
                pred = "cexpr-untyped-wrapping-i64" if attributed and lo is not None and lo <= rv <= hi else None
                if pred is None and v == "fallback" and m64.get(n) is None and rv == wrap(cval) and lo is not None and lo <= rv <= hi:
                    pred = "clang-fallback-signed-i64"
                if pred is None and re.fullmatch(r"L?'(\\.|[^'])+'", text_of.get(n, "")) and tyk == "u8" and rv == cval & 0xff:
                    pred = "char-literal-as-u8"
                ck.violation(case, dict(det, predicate=pred, why=f"emitted `{tyk} = {expr}`: " + "; ".join(probs) + (f" (M64 predicts {mv})" if mv is not None else "")))
        ck.extra[f"emitted_{v}"] = emitted
    ck.extra["macros"] = len(names)
    ck.extra["excluded_by_clang_diagnostics"] = len(dropped)
    ck.sample({"macro": "#define M (0xffffffffu >> 31)", "variants": [v for v, _ in VARIANTS]})
    if not only or only.get("part") == "strings":
        strings(ck, hp, res)
    if not only or only.get("part") in ("enums", "vars"):
        enums_and_vars(ck, only)
        env_arguments(ck, only)
    ck.assume("C values and types come from clang constant folding of the same header; expressions clang diagnoses (overflow, bad shift, "
              "division by zero, out-of-range) are excluded from value comparison; float macros are checked for omission/presence only")


ENV_H = """#ifndef SHIFT
#define SHIFT 2
#endif
#ifdef WIDE
typedef long long rec_t;
#else
typedef char rec_t;
#endif
struct record { rec_t a[3]; };
#define RECORD_BYTES ((int)sizeof(struct record) << SHIFT)
#define SHIFT_IS_BIG (SHIFT > 3)
#define SLOTS (1 << SHIFT)
#define PLAIN_SHIFT SHIFT
#define SIZE_ONLY ((int)sizeof(struct record))
"""
ENV_NAMES = ["RECORD_BYTES", "SHIFT_IS_BIG", "SLOTS", "PLAIN_SHIFT", "SIZE_ONLY", "SHIFT"]


def env_arguments(ck, only=None):
    """Macro values depend on the clang arguments, and those can arrive three ways: after `--`, through BINDGEN_EXTRA_CLANG_ARGS,
    through the target-specific variable. Every route must give every evaluator (cexpr, clang's evaluator, the clang macro
    fallback with its precompiled header) the same arguments: emitted values equal clang's folding under those arguments."""
    wd = os.path.join(ck.wd, "envargs")
    os.makedirs(wd, exist_ok=True)
    hp = os.path.join(wd, "envargs.h")
    open(hp, "w").write(ENV_H)
    argsets = [[], ["-DSHIFT=4"], ["-DSHIFT=4", "-DWIDE"], ["-DWIDE"]]
    routes = ["cli", "env", "env-target", "split"]
    jobs, want = {}, {}
    for ai, extra in enumerate(argsets):
        fp = os.path.join(wd, f"fold{ai}.c")
        open(fp, "w").write(f'#include "envargs.h"\n' + "\n".join(f"const long long v_{n} = (long long)({n});" for n in ENV_NAMES) + "\n")
        rc, out, err = common.clang(["-S", "-emit-llvm", "-O0", "-w", "-o", "-", fp] + extra, cwd=wd)
        common.guard(rc == 0, "C05 env part: clang cannot fold: " + err[:300])
        want[ai] = {m.group(1): int(m.group(2)) for m in re.finditer(r"@v_(\w+) = .*?constant i64 (-?\d+)", out)}
        for route in routes:
            if not extra and route != "cli":
                continue
            for fb in (False, True):
                env = {}
                cl = []
                if route == "cli":
                    cl = ["--"] + extra if extra else []
                elif route == "env":
                    env["BINDGEN_EXTRA_CLANG_ARGS"] = " ".join(extra)
                elif route == "env-target":
                    env["TARGET"] = "x86_64-unknown-linux-gnu"
                    env["BINDGEN_EXTRA_CLANG_ARGS_x86_64_unknown_linux_gnu"] = " ".join(extra)
                else:
                    env["BINDGEN_EXTRA_CLANG_ARGS"] = " ".join(extra[:1])
                    cl = ["--"] + extra[1:] if extra[1:] else []
                jid = f"{ai}|{route}|{int(fb)}"
                jobs.setdefault(tuple(sorted(env.items())), []).append(
                    {"id": jid, "args": [hp, "--formatter", "none", "--no-layout-tests"] + (["--clang-macro-fallback", "--clang-macro-fallback-build-dir", wd] if fb else []) + cl,
                     "inventory": True, "text": False, "fresh": True})
    n = 0
    for envkey, js in jobs.items():
        res = common.run_jobs(js, wd, timeout=60, env=dict(common.ENV, **dict(envkey)))
        for j in js:
            r = res[j["id"]]
            ai, route, fb = j["id"].split("|")
            ck.count()
            n += 1
            ck.nontriv(("envargs", j["id"]))
            det = {"part": "envargs", "job": j["id"]}
            if r["status"] != "ok":
                ck.violation(f"env-arguments args={argsets[int(ai)]} route={route} fallback={fb} generation-failed", dict(det, why=str(r)[:200]))
                continue
            consts = rust_consts(r["inventory"])
            bad = []
            for name, (ty, expr) in consts.items():
                if name in want[int(ai)] and parse_int(expr) is not None and parse_int(expr) != want[int(ai)][name]:
                    bad.append(f"{name} = {expr} (clang with {argsets[int(ai)]}: {want[int(ai)][name]})")
            if bad:
                ck.violation(f"env-arguments args={argsets[int(ai)]} route={route} fallback={fb}", dict(det, why="; ".join(bad)[:500]))
            if fb == "1" and "RECORD_BYTES" not in consts:
                ck.extra["env_fallback_macros_omitted"] = ck.extra.get("env_fallback_macros_omitted", 0) + 1
    ck.extra["env_argument_runs"] = n


def strings(ck, hp, res):
    """String macros: bytes must be the C string's bytes (with terminating NUL)."""
    wd = ck.wd
    prog = f'#include <stdio.h>\n#include "{os.path.basename(hp)}"\nint main(void){{\n' + "\n".join(
        f'{{ const char s[] = {n}; printf("{n}"); for (unsigned i = 0; i < sizeof s; i++) printf(" %02x", (unsigned char)s[i]); printf("\\n"); }}' for n, _ in STRINGS) + "\nreturn 0;}\n"
    pp = os.path.join(wd, "strs.c")
    open(pp, "w").write(prog)
    rc, _, err = common.clang(["-w", "-o", os.path.join(wd, "strs"), pp], cwd=wd)
    common.guard(rc == 0, "C05 string probe does not compile: " + err[:300])
    want = {}
    for line in common.sh([os.path.join(wd, "strs")]).stdout.decode().splitlines():
        p = line.split()
        want[p[0]] = bytes(int(x, 16) for x in p[1:])
    r = res.get("default")
    if not r or r["status"] != "ok":
        return
    consts = rust_consts(r["inventory"])
    for n, t in STRINGS:
        ck.count()
        ck.nontriv(("str", n))
        if n not in consts:
            continue
        ty, expr = consts[n]
        m = re.fullmatch(r'\s*b"(.*)"\s*', expr, re.S)
        if not m:
            continue
        try:
            got = eval('b"' + m.group(1) + '"')  # Rust byte-string escapes used by proc_macro2 are valid Python byte-string escapes
        except Exception:
            continue
        if got != want[n]:
            ck.violation(f"string macro {n} = {t}", {"part": "strings", "why": f"emitted bytes {got!r}, C bytes {want[n]!r}"})


ENUM_TUPLES = [
    ("0,1,2", None), ("-1,0,1", None), ("2147483647,0", None), ("-2147483648,5", None), ("4294967295,1", None), ("4294967296,1", None),
    ("-2147483649,1", None), ("9223372036854775807,-1", None), ("5,5,7", None), ("0,18446744073709551615ULL", None),
    ("1,2", "unsigned char"), ("200,255", "unsigned char"), ("-128,127", "signed char"), ("65535,0", "unsigned short"), ("-5,5", "long long"),
    ("4000000000,1", "unsigned int"), ("1,18446744073709551615ULL", "unsigned long long"),
    # every other integer kind as the fixed underlying type, with its most negative / largest value (plain char is a kind of its own)
    ("-1,-128,127", "char"), ("0,100", "char"), ("-32768,32767,-1", "short"), ("-1,2147483647", "int"), ("-1,1", "long"), ("4294967295UL,0", "unsigned long"),
    ("65535,1", "char16_t"), ("4294967295,7", "char32_t"), ("-1,3", "wchar_t"), ("-9223372036854775807LL-1,0", "long long"), ("255,0", "unsigned char"),
]
ENUM_STYLES = ["consts", "moduleconsts", "newtype", "newtype_global", "bitfield", "rust", "rust_non_exhaustive"]


def enums_and_vars(ck, only):
    wd = os.path.join(ck.wd, "enums")
    os.makedirs(wd, exist_ok=True)
    src = []
    cases = []
    for i, (vals, under) in enumerate(ENUM_TUPLES):
        vs = vals.split(",")
        if len(set(vs)) != len(vs):
            pass
        body = ", ".join(f"E{i}_V{j} = {v}" for j, v in enumerate(vs))
        src.append(f"enum E{i} {': ' + under if under else ''} {{ {body} }};")
        cases.append((i, vs, under))
    VARS = [("int", "-5"), ("unsigned", "4294967295u"), ("long long", "-9223372036854775807LL - 1"), ("unsigned long long", "18446744073709551615ULL"),
            ("short", "-32768"), ("unsigned char", "255"), ("char", "'x'"), ("signed char", "-128"), ("bool", "true"), ("unsigned", "~0u"), ("unsigned", "-1u"),
            ("unsigned", "~0xFu"), ("int", "1 << 30"), ("long", "1L << 40"), ("unsigned short", "65535"), ("int", "0x7fffffff"), ("unsigned", "0x80000000"),
            ("long long", "(long long)1 << 62"), ("unsigned long", "~0ul"), ("int", "-(1 + 2) * 3")]
    for i, (t, v) in enumerate(VARS):
        src.append(f"const {t} CV{i} = {v};")
    hpp = os.path.join(wd, "enums.hpp")
    open(hpp, "w").write("\n".join(src) + "\n")
    # C++ oracle: values and underlying types
    prog = ['#include <stdio.h>', '#include <type_traits>', f'#include "enums.hpp"', "int main(){"]
    for i, vs, under in cases:
        prog.append(f'printf("E{i} %zu %d\\n", sizeof(E{i}), (int)std::is_signed<std::underlying_type<E{i}>::type>::value);')
        for j in range(len(vs)):
            prog.append(f'printf("E{i}_V{j} %lld %llu\\n", (long long)E{i}_V{j}, (unsigned long long)E{i}_V{j});')
    for i, (t, v) in enumerate(VARS):
        prog.append(f'printf("CV{i} %lld %llu %d\\n", (long long)CV{i}, (unsigned long long)CV{i}, (int)(({t})-1 < ({t})0));')
    prog.append("return 0;}")
    pp = os.path.join(wd, "p.cpp")
    open(pp, "w").write("\n".join(prog))
    rc, _, err = common.clang(["-x", "c++", "-std=c++14", "-w", "-o", os.path.join(wd, "p"), pp], cwd=wd)
    common.guard(rc == 0, "C05 enum probe does not compile: " + err[:400])
    want = {}
    for line in common.sh([os.path.join(wd, "p")]).stdout.decode().splitlines():
        p = line.split()
        want[p[0]] = [int(x) for x in p[1:]]
    jobs = []
    for st in ENUM_STYLES:
        for tr in (False, True):
            for pre in (False, True):
                jobs.append({"id": f"{st}|{int(tr)}|{int(pre)}", "args": [hpp, "--formatter", "none", "--no-layout-tests", "--default-enum-style", st]
                             + (["--translate-enum-integer-types"] if tr else []) + (["--no-prepend-enum-name"] if pre else []) + ["--", "-x", "c++", "-std=c++14"],
                             "inventory": True, "text": False})
    res = common.run_jobs(jobs, wd)
    for jid, r in res.items():
        st = jid.split("|")[0]
        noprep = jid.endswith("|1")
        if r["status"] != "ok":
            ck.violation(f"enums style={jid} generation-failed", {"part": "enums", "why": str(r)[:200]})
            continue
        vals, types = enum_view(r["inventory"])
        for i, vs, under in cases:
            size, signed = want[f"E{i}"]
            for j in range(len(vs)):
                ck.count()
                ck.nontriv((jid, i, j))
                cs, cu = want[f"E{i}_V{j}"]
                cval = cs if signed else cu
                key_names = [f"E{i}_V{j}", f"E{i}_E{i}_V{j}", f"E{i}::E{i}_V{j}", f"E{i}::V{j}"]
                got = next((vals[k] for k in key_names if k in vals), None)
                if got is None:
                    continue
                gv, gty = got
                if gv is not None and gv != cval and gv != cs and gv != cu:
                    ck.violation(f"enumerator E{i}_V{j} of `{ENUM_TUPLES[i][0]}`{(':' + under) if under else ''} style={jid}",
                                 {"part": "enums", "why": f"value {gv}, C value {cval}"})
                elif gv is not None and gv != cval:
                    # same bit pattern seen through the other signedness: the enum type must then be of that signedness and width
                    pass
            ety = types.get(f"E{i}")
            if ety:
                lo, hi = RANGE.get(ety.split("::")[-1], (None, None))
                if lo is not None:
                    bits = 8 if hi in (127, 255) else 16 if hi in (32767, 65535) else 32 if hi in (2**31 - 1, 2**32 - 1) else 64
                    if bits != size * 8 or (lo < 0) != bool(signed):
                        ck.violation(f"enum E{i} `{ENUM_TUPLES[i][0]}`{(':' + under) if under else ''} style={jid} repr",
                                     {"part": "enums", "why": f"Rust representation {ety} but C underlying type is {'signed' if signed else 'unsigned'} {size * 8} bits"})
    # the enums again for targets whose `long` / `wchar_t` / enum signedness differ from the host's: width and signedness of the
    # representation against clang's constant folding for that target (nothing executed)
    ftargets = ["i686-unknown-linux-gnu", "x86_64-pc-windows-msvc", "armv7-unknown-linux-gnueabihf"] + (["aarch64-unknown-linux-gnu", "i686-pc-windows-msvc"] if ck.tier == "thorough" else [])
    fstyles = [("rust", False), ("consts", True), ("newtype", True), ("bitfield", True), ("moduleconsts", True)] if ck.tier == "thorough" else [("rust", False), ("consts", True), ("bitfield", True)]
    fjobs = []
    fwant = {}
    # a header every target accepts: fixed underlying types whose WIDTH or SIGNEDNESS depends on the target, and plain enums
    fcases = [(i, vs, under) for i, vs, under in cases if (under == "char" and not any(v.startswith("-") for v in vs)) or under in ("long", "unsigned long", "short", "long long", "unsigned int", "signed char", "unsigned short", "int")
              or (under is None and all(-2**31 <= int(re.sub(r"[uUlL]", "", v)) < 2**31 for v in vs))]
    fhpp = os.path.join(wd, "enums_foreign.hpp")
    open(fhpp, "w").write("\n".join(l for l in src if any(l.startswith(f"enum E{i} ") for i, _, _ in fcases)) + "\n")
    cases_host, cases, hpp_host, hpp = cases, fcases, hpp, fhpp
    for t in ftargets:
        tp = os.path.join(wd, f"fold_{t}.cc")
        open(tp, "w").write('#include "enums_foreign.hpp"\n' + "\n".join(f'extern "C" const unsigned long long fz_{i} = sizeof(E{i}); extern "C" const int fs_{i} = (__underlying_type(E{i}))-1 < 0;' for i, _, _ in cases) + "\n")
        rc, out, err = common.clang(["-x", "c++", "-std=c++14", f"--target={t}", "-S", "-emit-llvm", "-O0", "-w", "-o", "-", tp], cwd=wd)
        common.guard(rc == 0, f"C05 enum table does not compile for {t}: {err[:300]}")
        fwant[t] = ({int(m.group(1)): int(m.group(2)) for m in re.finditer(r"@fz_(\d+) = .*?constant i64 (\d+)", out)},
                    {int(m.group(1)): int(m.group(2)) for m in re.finditer(r"@fs_(\d+) = .*?constant i32 (\d+)", out)})
        for st, tr in fstyles:
            fjobs.append({"id": f"{t}|{st}|{int(tr)}", "args": [hpp, "--formatter", "none", "--no-layout-tests", "--default-enum-style", st] + (["--translate-enum-integer-types"] if tr else [])
                          + ["--", "-x", "c++", "-std=c++14", f"--target={t}"], "inventory": True, "text": False})
    fres = common.run_jobs(fjobs, wd)
    for jid, r in fres.items():
        t = jid.split("|")[0]
        if r["status"] != "ok":
            ck.violation(f"enums target={jid} generation-failed", {"part": "enums", "why": str(r)[:200]})
            continue
        _, types = enum_view(r["inventory"])
        for i, vs, under in cases:
            ety = types.get(f"E{i}")
            ck.count()
            ck.nontriv(("foreign-enum", jid, i))
            if not ety:
                continue
            lo, hi = RANGE.get(ety.split("::")[-1], (None, None))
            if lo is None:
                continue
            bits = 8 if hi in (127, 255) else 16 if hi in (32767, 65535) else 32 if hi in (2**31 - 1, 2**32 - 1) else 64
            size, signed = fwant[t][0][i], fwant[t][1][i]
            if bits != size * 8 or (lo < 0) != bool(signed):
                ck.violation(f"enum E{i} `{ENUM_TUPLES[i][0]}`{(':' + under) if under else ''} target={jid} repr",
                             {"part": "enums", "why": f"Rust representation {ety} but the underlying type on {t} is {'signed' if signed else 'unsigned'} {size * 8} bits"})
    ck.extra["foreign_enum_runs"] = len(fjobs)
    cases, hpp = cases_host, hpp_host
    # const variables (default options)
    r = res["consts|0|0"]
    if r["status"] == "ok":
        consts = rust_consts(r["inventory"])
        for i, (t, v) in enumerate(VARS):
            ck.count()
            ck.nontriv(("var", i))
            n = f"CV{i}"
            if n not in consts:
                continue
            ty, expr = consts[n]
            cs, cu, signed = want[n]
            cval = cs if signed else cu
            if expr.strip() in ("true", "false"):
                rv = int(expr.strip() == "true")
            else:
                rv = parse_int(expr)
            tyk = ty.split("::")[-1]
            lo, hi = RANGE.get(tyk, (None, None))
            probs = []
            if rv is None:
                continue
            if rv != cval:
                probs.append(f"value {rv}, C value {cval}")
            if lo is not None and not lo <= rv <= hi:
                probs.append(f"type {tyk} cannot hold {rv}")
            if probs:
                ck.violation(f"const {t} CV = {v}", {"part": "vars", "why": f"emitted `{tyk} = {expr}`: " + "; ".join(probs)})


def enum_view(inv):
    """({name or path: (value, type)}, {enum name: integer repr})"""
    vals, types = {}, {}

    def intval(e):
        e = e.replace(" ", "")
        m = re.fullmatch(r"(?:\w+\()?(-?\d+)(?:[iu]\d+)?\)?", e)
        return int(m.group(1)) if m else None

    def walk(items, path):
        for it in items:
            if it["kind"] == "mod":
                walk(it["items"], path + [it["name"]])
            elif it["kind"] == "const":
                vals["::".join(path + [it["name"]]) if path else it["name"]] = (intval(it["expr"]), it["ty"])
            elif it["kind"] == "type":
                nm = "::".join(path) if path and it["name"] == "Type" else it["name"]
                types[nm] = it["ty"].replace(" ", "")
            elif it["kind"] == "enum":
                rep = [r for r in it["repr"] if r not in ("C",)]
                if rep:
                    types[it["name"]] = rep[0]
                for v in it["variants"]:
                    vals[f"{it['name']}::{v['name']}"] = (intval(v["discr"]) if v["discr"] else None, it["name"])
            elif it["kind"] == "struct" and it.get("tuple") and len(it["fields"]) == 1:
                types[it["name"]] = it["fields"][0]["ty"].replace(" ", "")
            elif it["kind"] == "impl" and it.get("trait") is None:
                for sub in it["items"]:
                    if sub["kind"] == "const":
                        vals[f"{it['self_ty']}::{sub['name']}"] = (intval(sub["expr"]), it["self_ty"])
    walk(inv["items"], [])
    return vals, types


def replay(ck, case, detail):
    n0 = len(ck.violations)
    run(ck, only=detail)
    return not any(c == case for c, _ in ck.violations[n0:])
