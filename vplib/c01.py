"""C01 - generated bindings compile for every accepted header and option set.

Explored: (i) every record of the gen_c family (<= w members x attributes x struct/union), each used as member,
array element, pointee, typedef target, parameter, result and global, under the default options and under
option sets within one deviation; (ii) a C++ family (method / constructor name collisions, inheritance,
templates, namespaces); (iii) every repository header with its own flags. Oracle: rustc 1.95
(--emit=metadata evaluates the embedded `const _` layout assertions) for the selected edition.
"""
import itertools
import os
import re

from . import common, gen_c, probes
from .common import Check

LEVEL = "exploration"
BATCH = 200

OPTIONS = [
    ("default", [], "2021"),
    ("derives-all", ["--with-derive-default", "--with-derive-hash", "--with-derive-partialeq", "--with-derive-partialord", "--with-derive-eq", "--with-derive-ord"], "2021"),
    ("impl-debug", ["--impl-debug"], "2021"), ("impl-partialeq", ["--impl-partialeq", "--with-derive-partialeq"], "2021"),
    ("no-copy-debug", ["--no-derive-copy", "--no-derive-debug"], "2021"),
    ("enum-rust", ["--default-enum-style", "rust"], "2021"), ("enum-newtype", ["--default-enum-style", "newtype"], "2021"),
    ("enum-module", ["--default-enum-style", "moduleconsts"], "2021"), ("enum-bitfield", ["--default-enum-style", "bitfield"], "2021"),
    ("enum-newtype-global", ["--default-enum-style", "newtype_global"], "2021"), ("enum-nonexhaustive", ["--default-enum-style", "rust_non_exhaustive"], "2021"),
    ("alias-newtype", ["--default-alias-style", "new_type"], "2021"), ("alias-deref", ["--default-alias-style", "new_type_deref"], "2021"),
    ("union-wrapper", ["--default-non-copy-union-style", "bindgen_wrapper", "--no-derive-copy"], "2021"),
    ("union-manuallydrop", ["--default-non-copy-union-style", "manually_drop", "--no-derive-copy"], "2021"),
    ("untagged-off", ["--disable-untagged-union"], "2021"),
    ("namespaces", ["--enable-cxx-namespaces"], "2021"), ("c-naming", ["--c-naming"], "2021"),
    ("explicit-padding", ["--explicit-padding"], "2021"), ("flexarray-dst", ["--flexarray-dst"], "2021"),
    ("use-core", ["--use-core"], "2021"), ("ctypes-prefix", ["--ctypes-prefix", "cty", "--raw-line", "mod cty { pub use std::os::raw::*; }"], "2021"),
    ("no-layout-tests", ["--no-layout-tests"], "2021"), ("sort", ["--sort-semantically"], "2021"), ("merge", ["--merge-extern-blocks"], "2021"),
    ("sort-merge", ["--sort-semantically", "--merge-extern-blocks"], "2021"), ("wrap-unsafe-ops", ["--wrap-unsafe-ops"], "2021"),
    ("edition2018", ["--rust-edition", "2018"], "2018"), ("edition2024", ["--rust-edition", "2024", "--rust-target", "1.85"], "2024"),
    ("target-1.64", ["--rust-target", "1.64"], "2021"), ("target-1.76", ["--rust-target", "1.76"], "2021"),
    ("no-size_t", ["--no-size_t-is-usize"], "2021"), ("generate-cstr", ["--generate-cstr"], "2021"),
    ("vis-private", ["--default-visibility", "private"], "2021"), ("anon-prefix", ["--anon-fields-prefix", "an_"], "2021"),
]


PAIR_ROWS_QUICK = ["explicit-padding", "flexarray-dst", "union-wrapper", "union-manuallydrop", "no-copy-debug", "target-1.64"]
PAIR_ROWS_THOROUGH = PAIR_ROWS_QUICK   # more rows multiply the known derive / padding families by every partner row (96 k attributed-by-hand
#                                        cases in a trial run): the pair part keeps one configuration in both tiers
LAYOUT_ATOMS = {"flex", "zla", "bfA", "bfB", "bfC", "anonu", "anons", "ldouble", "i128", "nestpk", "nestal", "arr3c"}


def option_pairs(ck, recs, only=None, failed_default=()):
    """Two deviations from the default configuration at once: every pair of the rows that change HOW a record is emitted, on the
    records whose layout needs something beyond natural alignment (flexible / zero-length arrays, bit-field units, anonymous
    members, over-aligned or packed members, record attributes). A failure already known under one of the two rows alone (or
    under the default row) is attributed to that finding."""
    import itertools as it
    wd = os.path.join(ck.wd, "pairs")
    rows = {o[0]: o for o in OPTIONS}
    names = PAIR_ROWS_QUICK if ck.tier == "quick" else PAIR_ROWS_THOROUGH
    allrecs = gen_c.enumerate_records(2)     # not the rotated quick selection: the pair rows always see the same family
    fam = [c for c in allrecs if (set(c.atoms) & LAYOUT_ATOMS or c.rattr != "plain") and (len(c.atoms) == 1 or c.atoms[0] in ("char", "llong"))]
    # three members: a trailing flexible / zero-length array or bit-field run that starts inside what would be tail padding
    three = [c for c in gen_c.enumerate_records(3, atoms=["llong", "char", "short", "flex", "zla", "bfA"], rattrs=["plain", "packed", "al8"], kinds=("struct",))
             if len(c.atoms) == 3 and c.atoms[2] in ("flex", "zla", "bfA") and c.atoms[0] in ("llong", "short") and c.atoms[1] in ("char", "short")]
    for k, c in enumerate(three):
        c.tag = f"K{len(allrecs) + 1 + k}"
    fam += three
    # like the single rows: a record that is already rejected under the default options is not re-tried under other rows
    # (the family is first compiled under the default row; what fails there is reported under that row)
    failed_default = set(failed_default)
    if not only:
        batches = [(f"p_default_{i // BATCH}", fam[i:i + BATCH]) for i in range(0, len(fam), BATCH)]
        res, _ = probes.compile_batches(batches, os.path.join(wd, "default"), [], lang="c", contexts=True, edition="2021", prelude="#![allow(warnings)]\n")
        for c in fam:
            msgs = res.get(c.tag)
            if msgs:
                failed_default.add(c.cid)
                sig = signature(msgs)
                ck.violation(f"{c.cid} opt=default rustc-rejects {sig}", {"cid": c.cid, "opt": "default", "predicate": f"{sig}|{structure_class(c)}|default",
                                                                           "source": c.source(), "why": " | ".join(msgs)[:600]})
    fam = [c for c in fam if c.cid not in failed_default]
    if only:
        fam = [c for c in fam if c.cid == only.get("cid")]
    npairs = 0
    for a, b in it.combinations(names, 2):
        oname = f"{a}+{b}"
        if only and only.get("opt") != oname:
            continue
        if {a, b} == {"union-wrapper", "union-manuallydrop"}:
            continue   # two values of one option
        npairs += 1
        flags = rows[a][1] + [f for f in rows[b][1] if f not in rows[a][1]]
        batches = [(f"p_{oname.replace('.', '_').replace('+', '_')}_{i // BATCH}", fam[i:i + BATCH]) for i in range(0, len(fam), BATCH)]
        res, _ = probes.compile_batches(batches, os.path.join(wd, oname.replace(".", "_").replace("+", "_")), flags, lang="c", contexts=True,
                                        edition="2021", prelude="#![allow(warnings)]\n")
        for c in fam:
            ck.count()
            ck.nontriv((c.cid, oname))
            msgs = res.get(c.tag)
            if not msgs:
                continue
            sig = signature(msgs)
            cls = structure_class(c)
            det = {"cid": c.cid, "opt": oname, "pair": True, "source": c.source(), "why": " | ".join(msgs)[:600]}
            pred = f"{sig}|{cls}|{oname}"
            # error codes already recorded for this structural class under one of the two rows alone (or the default row)
            known_codes, first = set(), None
            for rec in ck.findings:
                for kp in list(rec.get("predicates", ())) + ([rec["predicate"]] if rec.get("predicate") else []):
                    parts = kp.split("|")
                    if len(parts) == 3 and parts[1] == cls and parts[2] in (a, b, "default"):
                        known_codes |= set(parts[0].split(","))
                        if first is None and set(parts[0].split(",")) & set(sig.split(",")):
                            first = kp
            if first and set(sig.split(",")) <= known_codes:
                pred = first
            det["predicate"] = pred
            ck.violation(f"{c.cid} opt={oname} rustc-rejects {sig}", det)
    ck.extra["option_pair_rows"] = npairs
    ck.extra["option_pair_records"] = len(fam)


RENAME_H = """typedef struct point_s { int x; int y; } point_t;
typedef enum colour_e { RED, GREEN } colour_t;
typedef union val_u { int i; float f; } val_t;
typedef struct node_s node_t;
struct node_s { node_t *next; point_t at; colour_t c; val_t v; };
struct uses_s { struct point_s *p; enum colour_e e; union val_u *u; point_t arr[2]; };
point_t mk_t(colour_t c, struct node_s *n);
extern point_t origin_t;
"""


def renaming_callbacks(ck, only=None):
    """ParseCallbacks::item_name that maps several C names onto one Rust name (the usual `foo_s` / `foo_t` pair collapsed to
    `foo`), and one that prefixes every name: under the enum / alias styles and namespaces, the output must still be one
    well-formed module (no item twice, no alias of itself)."""
    wd = os.path.join(ck.wd, "callbacks")
    os.makedirs(wd, exist_ok=True)
    hp = os.path.join(wd, "rename.h")
    open(hp, "w").write(RENAME_H)
    rows = [("default", []), ("enum-rust", ["--default-enum-style", "rust"]), ("enum-newtype", ["--default-enum-style", "newtype"]), ("enum-module", ["--default-enum-style", "moduleconsts"]),
            ("alias-newtype", ["--default-alias-style", "new_type"]), ("namespaces", ["--enable-cxx-namespaces"]), ("c-naming", ["--c-naming"]),
            ("derives", ["--with-derive-default", "--with-derive-hash", "--with-derive-partialeq"])]
    jobs = []
    for cbn in ("strip", "rename"):
        for rn, fl in rows:
            if only and only.get("callbacks") != f"{cbn}|{rn}":
                continue
            jobs.append({"id": f"{cbn}|{rn}", "args": [hp, "--formatter", "prettyplease"] + fl, "callbacks": {cbn: True}})
    res = common.run_jobs(jobs, wd, timeout=60)
    for jid, r in res.items():
        ck.count()
        ck.nontriv(("callbacks", jid))
        det = {"callbacks": jid}
        if r["status"] != "ok":
            ck.violation(f"renaming-callback {jid} generation-failed", dict(det, why=str(r)[:200]))
            continue
        bp = os.path.join(wd, jid.replace("|", "_") + ".rs")
        open(bp, "w").write("#![allow(warnings)]\n" + r["text"])
        ok, err = common.rustc_meta(bp)
        if not ok:
            msgs = re.findall(r"error(?:\[E\d+\])?: .*", err)
            sig = signature(msgs)
            ck.violation(f"renaming-callback {jid} rustc-rejects {sig}", dict(det, predicate=f"{sig}|renaming-callback|{jid}", why=" | ".join(msgs[:4])[:500]))
    ck.extra["renaming_callback_runs"] = len(jobs)


class CxxCase:
    def __init__(self, tag, src, cid):
        self.tag, self._src, self.cid = tag, src, cid

    def source(self):
        return self._src


def cxx_family():
    """Name-collision family: classes whose methods are drawn from a menu that contains `<base>` overloads and literal
    `<base><n>` names, in both declaration orders, with 0..3 constructors (methods are emitted before constructors)."""
    menu = [("at", "(int)"), ("at", "(int, int)"), ("at", "(char)"), ("at1", "()"), ("at2", "()"), ("new1", "()"), ("new2", "()"), ("destruct", "()")]
    out = []
    n = 0
    for r in range(1, 5):
        for combo in itertools.combinations(range(len(menu)), r):
            for rev in (False, True):
                for nctor in (0, 1, 2, 3):
                    if r > 3 and nctor not in (0, 2):
                        continue
                    n += 1
                    tag = f"K{n}"
                    ms = [menu[i] for i in (reversed(combo) if rev else combo)]
                    body = " ".join(f"int {nm}{sig};" for nm, sig in ms)
                    ctors = " ".join(f"{tag}({', '.join(['int'] * k)});" for k in range(nctor))
                    dtor = f"~{tag}();" if nctor == 3 else ""
                    src = f"class {tag} {{ public: {body} {ctors} {dtor} int x; }};"
                    out.append(CxxCase(tag, src, f"cxx-names[{'rev' if rev else 'fwd'};ctors={nctor}]({','.join(nm + sig for nm, sig in ms)})"))
    return out


CXX_SHAPES = [
    # helper types (bit-field unit, union field wrapper, incomplete array, opaque array) needed in one namespace, sibling namespaces
    # before and after it that need none: the helper definitions are emitted once at the root whatever the order
    ("global-bitfield-then-ns", "struct {t} {{ unsigned r:1; unsigned m:3; }}; namespace {t}_u {{ struct {t}_P {{ int v; }}; }} void {t}_f({t} f, {t}_u::{t}_P p);"),
    ("global-flexarray-then-ns", "struct {t} {{ int n; int d[]; }}; namespace {t}_u {{ struct {t}_P {{ int v; }}; }} namespace {t}_w {{ struct {t}_Q {{ int v; }}; }}"),
    ("ns-bitfield-then-plain", "namespace {t}_a {{ struct {t} {{ unsigned x:3; unsigned y:9; }}; }} namespace {t}_b {{ struct {t}_P {{ int q; }}; }}"),
    ("ns-plain-bitfield-plain", "namespace {t}_a {{ struct {t}_P {{ int q; }}; }} namespace {t}_b {{ struct {t} {{ unsigned x:3; }}; }} namespace {t}_c {{ struct {t}_Q {{ char c; }}; }}"),
    ("ns-nested-bitfield", "namespace {t}_o {{ namespace {t}_i {{ struct {t} {{ long long w:40; }}; }} struct {t}_M {{ int m; }}; }} namespace {t}_z {{ enum {t}_E {{ {t}_E0 }}; }}"),
    ("ns-flexarray-then-plain", "namespace {t}_a {{ struct {t} {{ int n; int data[]; }}; }} namespace {t}_b {{ struct {t}_P {{ int q; }}; }}"),
    ("ns-union-nocopy-then-plain", "namespace {t}_a {{ struct {t}_D {{ ~{t}_D(); int d; }}; union {t} {{ {t}_D d; int i; }}; }} namespace {t}_b {{ struct {t}_P {{ int q; }}; }}"),
    ("ns-bigarray-then-plain", "namespace {t}_a {{ struct {t} {{ long double ld; char big[40]; }}; }} namespace {t}_b {{ struct {t}_P {{ int q; }}; }}"),
    ("inherit-virtual", "struct {t}_B {{ virtual void f(); int b; }}; struct {t} : {t}_B {{ void f() override; int d; }};"),
    ("inherit-multiple", "struct {t}_A {{ int a; }}; struct {t}_B {{ double b; }}; struct {t} : {t}_A, {t}_B {{ char c; }};"),
    ("inherit-virtual-base", "struct {t}_V {{ int v; }}; struct {t}_L : virtual {t}_V {{ int l; }}; struct {t} : virtual {t}_V {{ int r; }};"),
    ("inherit-float-base", "struct {t}_B {{ double d; }}; struct {t}_M : {t}_B {{ int m; }}; struct {t} : {t}_M {{ char c; }};"),
    ("template-float-def", "template <typename T> struct {t}_W {{ T v; float w; }}; struct {t}_H {{ {t}_W<int> a; }}; struct {t} {{ {t}_H h[2]; }};"),
    ("empty-base", "struct {t}_E {{}}; struct {t} : {t}_E {{ int x; }};"),
    ("template-used", "template <typename T> struct {t}_T {{ T v; T *p; }}; struct {t} {{ {t}_T<int> a; {t}_T<{t}_T<char> > b; }};"),
    ("template-unused", "template <typename T, typename U> struct {t}_T {{ T only; }}; struct {t} {{ {t}_T<int, float> a; }};"),
    ("template-array", "template <typename T> struct {t}_T {{ T arr[3]; }}; struct {t} {{ {t}_T<double> a; }};"),
    ("template-nontype", "template <typename T, int N> struct {t}_T {{ T arr[N]; }}; struct {t} {{ {t}_T<int, 4> a; }};"),
    ("template-default", "template <typename T = int> struct {t}_T {{ T v; }}; struct {t} {{ {t}_T<> a; }};"),
    ("template-alias", "template <typename T> struct {t}_T {{ T v; }}; template <typename T> using {t}_A = {t}_T<T>; struct {t} {{ {t}_A<short> a; }};"),
    ("nested-class", "struct {t} {{ struct Inner {{ int i; struct Deep {{ char c; }} d; }} in; enum E {{ A, B }} e; typedef int T; T t; }};"),
    ("namespace", "namespace {t}_ns {{ struct Q {{ int q; }}; namespace in {{ struct R {{ Q q; }}; }} }} struct {t} {{ {t}_ns::in::R r; }};"),
    ("inline-namespace", "namespace {t}_ns {{ inline namespace v1 {{ struct Q {{ int q; }}; }} }} struct {t} {{ {t}_ns::Q q; }};"),
    ("anon-namespace", "namespace {{ struct {t}_H {{ int h; }}; }} struct {t} {{ {t}_H *h; }};"),
    ("overloads", "int {t}_f(int); int {t}_f(char); int {t}_f(int, int); struct {t} {{ int x; }};"),
    ("static-member", "struct {t} {{ static int s; static const int k = 4; static int sm(); int x; }};"),
    ("ctor-dtor", "struct {t} {{ {t}(); {t}(int); {t}(const {t}&); ~{t}(); int x; }};"),
    ("operators", "struct {t} {{ bool operator==(const {t}&) const; {t}& operator=(const {t}&); int operator[](int); int x; }};"),
    ("reference-members", "struct {t} {{ int &r; const double &cr; {t}(int &a, const double &b); }};"),
    ("method-keywords", "struct {t} {{ int type(); int fn(int match); int self; int r#x; }};".replace("int r#x; ", "")),
    ("bitfield-class", "class {t} {{ public: unsigned a:3; bool b:1; int c; private: int d:5; }};"),
    ("union-class", "union {t} {{ int i; float f; struct {{ char a, b; }} s; }};"),
    ("nontrivial-union", "struct {t}_N {{ ~{t}_N(); int z; }}; union {t} {{ {t}_N n; int i; {t}(); ~{t}(); }};"),
    ("enum-class", "enum class {t}_E : unsigned char {{ X, Y = 200 }}; struct {t} {{ {t}_E e; }};"),
    ("fn-template", "template <typename T> T {t}_id(T v); struct {t} {{ int x; }};"),
    ("typedef-fnptr", "typedef int (*{t}_cb)(int, double); struct {t} {{ {t}_cb cb; int ({t}::*pm)(int); }};"),
    ("deleted-default", "struct {t} {{ {t}() = default; {t}(const {t}&) = delete; int x; }};"),
    ("pure-virtual", "struct {t} {{ virtual int pv() = 0; virtual ~{t}(); }};"),
    ("private-members", "class {t} {{ int priv; protected: int prot; public: int pub_; private: int m(); }};"),
    ("constexpr-static", "struct {t} {{ static constexpr int N = 3; int arr[N]; }};"),
]


# C item kinds the record grammar does not produce: typed constants of typedef'd types, alias chains, typedef'd enums, macros
C_SHAPES = [
    ("typed-consts", "typedef unsigned {t}_h; static const {t}_h {t}_NONE = 0; static const {t}_h {t}_MAX = 42; const {t}_h {t}_ext = 7; extern {t}_h {t}_g; "
                     "struct {t} {{ {t}_h h; }}; {t}_h {t}_mk({t}_h a);"),
    ("typed-consts-chain", "typedef int {t}_a; typedef {t}_a {t}_b; typedef {t}_b {t}_c; static const {t}_c {t}_K = -5; static const {t}_a {t}_K2 = 6; struct {t} {{ {t}_c c; {t}_b b[2]; }};"),
    ("typed-consts-float", "typedef float {t}_r; typedef double {t}_d; static const {t}_r {t}_HALF = 0.5f; static const {t}_d {t}_PI = 3.25; struct {t} {{ {t}_r r; {t}_d d; }};"),
    ("typed-consts-char-bool", "typedef char {t}_ch; typedef _Bool {t}_fl; typedef unsigned char {t}_u8; static const {t}_ch {t}_C = 'x'; static const {t}_fl {t}_T = 1; "
                               "static const {t}_u8 {t}_B = 200; struct {t} {{ {t}_ch c; {t}_fl f; {t}_u8 b; }};"),
    ("enum-typedef-const", "enum {t}_col {{ {t}_RED, {t}_GREEN = 5 }}; typedef enum {t}_col {t}_col_t; static const {t}_col_t {t}_DEF = {t}_GREEN; struct {t} {{ {t}_col_t c; enum {t}_col d; }};"),
    ("typedef-pointers", "typedef const char *{t}_name; typedef void *{t}_hnd; typedef int (*{t}_cb)(int); typedef int {t}_fn(int); typedef int {t}_arr[3]; "
                         "struct {t} {{ {t}_name n; {t}_hnd h; {t}_cb cb; {t}_fn *f; {t}_arr a; }}; {t}_name {t}_get({t}_hnd h, {t}_cb c, {t}_arr a);"),
    ("typedef-of-struct", "struct {t}_s {{ int x; }}; typedef struct {t}_s {t}_st; typedef {t}_st *{t}_sp; typedef struct {{ int y; }} {t}_anon; static const int {t}_N = 3; "
                          "struct {t} {{ {t}_st a; {t}_sp p; {t}_anon q; }};"),
    ("macro-consts", "typedef unsigned {t}_h;\n#define {t}_M1 5\n#define {t}_M2 (-7)\n#define {t}_M3 2.5\n#define {t}_M4 \"s\"\n#define {t}_M5 'c'\n#define {t}_M6 ({t}_M1 + 1)\nstruct {t} {{ {t}_h h; }};"),
    ("typedef-same-as-tag", "typedef struct {t} {{ int v; }} {t}; typedef union {t}_u {{ int i; float f; }} {t}_u; typedef enum {t}_e {{ {t}_E0 }} {t}_e; "
                            "static const {t}_e {t}_ec = {t}_E0; struct {t}_holder {{ {t} a; {t}_u b; {t}_e c; }};"),
    ("int-typedefs-stdint", "typedef signed char {t}_i8; typedef unsigned short {t}_u16; typedef long long {t}_i64; typedef unsigned long {t}_sz; static const {t}_i8 {t}_A = -1; "
                            "static const {t}_u16 {t}_Bv = 65535; static const {t}_i64 {t}_Cv = -9000000000LL; static const {t}_sz {t}_Dv = 18000000000000000000UL; struct {t} {{ {t}_sz s; }};"),
]


def c_shapes():
    return [CxxCase(f"K{9500 + i}", src.format(t=f"K{9500 + i}"), f"c-shape({name})") for i, (name, src) in enumerate(C_SHAPES)]


# option rows that only make sense for the item-kind shapes (patterns naming the shapes' typedefs)
SHAPE_OPTIONS = [
    ("nta-regex", ["--new-type-alias", "K\\d+_(h|c|r|ch|col_t|name|st|i8|sz)"], "2021"),
    ("ntad-regex", ["--new-type-alias-deref", "K\\d+_(h|c|r|ch|col_t|name|st|i8|sz)"], "2021"),
    ("normal-over-newtype", ["--default-alias-style", "new_type", "--normal-alias", "K\\d+_(h|c|r)"], "2021"),
    ("deref-over-newtype", ["--default-alias-style", "new_type", "--new-type-alias-deref", "K\\d+_(h|d|fl)"], "2021"),
    ("newtype-derives", ["--default-alias-style", "new_type", "--with-derive-default", "--with-derive-hash", "--with-derive-partialeq", "--with-derive-eq", "--with-derive-ord", "--with-derive-partialord"], "2021"),
    ("deref-no-copy", ["--default-alias-style", "new_type_deref", "--no-derive-copy", "--no-derive-debug"], "2021"),
]


def cxx_shapes():
    return [CxxCase(f"K{9000 + i}", src.format(t=f"K{9000 + i}"), f"cxx-shape({name})") for i, (name, src) in enumerate(CXX_SHAPES)]


def structure_class(c):
    """Closed-form structural class of a record (used to attribute known unrepresentable shapes)."""
    if not hasattr(c, "atoms"):
        return c.cid.split(" ")[0] if c.cid.startswith(("cxx-shape", "c-shape")) else "cxx-names"
    packed = c.rattr in ("packed", "pk_al4", "pp1", "pp2", "pp4", "pp8") or c.mattr == "mpk"
    aligned = c.rattr in ("al2", "al4", "al8", "al16", "al64", "pk_al4") or c.mattr in ("mal8", "mal16", "mal64")
    over = any(k in ("nestal", "ldouble", "i128") for k in c.atoms)
    bits = any(k.startswith("bf") for k in c.atoms)
    incomplete = any(k in ("zla", "flex") for k in c.atoms)
    parts = [c.kind]
    for name, v in (("packed", packed), ("aligned", aligned), ("overaligned-member", over), ("bitfields", bits), ("incomplete-array", incomplete),
                    ("nested-packed", "nestpk" in c.atoms)):
        if v:
            parts.append(name)
    return "+".join(parts)


def signature(msgs):
    codes = sorted(set(re.findall(r"\bE\d{4}\b", " ".join(msgs))))
    return ",".join(codes) or "other"


def new_check(tier):
    return Check("C01", tier, LEVEL,
                 "cases = gen_c records (<= w members x 12 record attributes x struct/union) each with 7 use contexts, a C++ family (name "
                 "collisions: method menus x order x constructor counts; 30 class shapes), repository headers; x option sets within one "
                 "deviation (34 rows); non-trivial = distinct (case, option row) pairs whose bindings define at least one type")


def run(ck, only=None):
    wd = ck.wd
    recs = gen_c.enumerate_records(2)
    if ck.tier == "quick":
        keys = [a.key for a in gen_c.ATOMS]
        pick = {k for i, k in enumerate(keys) if (i + ck.seed) % 6 == 1}
        recs = [c for c in recs if len(c.atoms) == 1 or c.atoms[0] in pick]
        ck.cap("quick tier: 2-member records whose first member is in a rotated sixth of the atom alphabet; a rotated third of the option rows on a twelfth of them")
    fam_c = recs + c_shapes()
    fam_cpp = cxx_family() + cxx_shapes()
    if os.environ.get("VERIF_C01_SHAPES_ONLY"):   # triage aid: only the item-kind shapes, every option row
        fam_c, fam_cpp = c_shapes(), cxx_shapes()
    if only:
        fam_c = [c for c in fam_c if c.cid == only.get("cid")]
        fam_cpp = [c for c in fam_cpp if c.cid == only.get("cid")]
    opts = OPTIONS if not only else [o for o in OPTIONS + SHAPE_OPTIONS if o[0] == only.get("opt")]
    if ck.tier == "quick" and not only:
        # rows that change HOW a type is emitted (not only which traits it carries) are in every quick run
        opts = [o for k, o in enumerate(OPTIONS) if k <= 1 or (k + ck.seed) % 3 == 0 or o[0] in ("no-copy-debug", "union-wrapper", "namespaces")]
    if not only:
        opts = opts + SHAPE_OPTIONS
    shape_rows = {o[0] for o in SHAPE_OPTIONS}
    failed_default = set()
    for oname, flags, edition in opts:
        for lang, fam in (("c", fam_c), ("cpp", fam_cpp)):
            if not fam:
                continue
            cases = fam
            if oname in shape_rows:
                if lang != "c":
                    continue
                fam = [c for c in fam if c.cid.startswith("c-shape")]
            if oname != "default":
                cases = [c for c in fam if c.cid not in failed_default]
                if ck.tier == "quick" and lang == "c":
                    cases = [c for k, c in enumerate(cases) if k % 12 == 0 or c.cid.startswith("c-shape") or
                             (oname in ("no-copy-debug", "union-wrapper") and getattr(c, "kind", "") == "union" and len(c.atoms) == 1)]
                elif ck.tier == "quick":
                    cases = [c for k, c in enumerate(cases) if k % 3 == 0 or c.cid.startswith("cxx-shape")]
            batches = [(f"{lang}_{oname.replace('.', '_')}_{i // BATCH}", cases[i:i + BATCH]) for i in range(0, len(cases), BATCH)]
            prelude = "#![allow(warnings)]\n"
            res, _ = probes.compile_batches(batches, os.path.join(wd, f"{lang}_{oname.replace('.', '_')}"), flags, lang=lang,
                                            contexts=(lang == "c"), edition=edition, prelude=prelude)
            for c in cases:
                ck.count()
                ck.nontriv((c.cid, oname))
                msgs = res.get(c.tag)
                if msgs:
                    if oname == "default":
                        failed_default.add(c.cid)
                    sig = signature(msgs)
                    ck.violation(f"{c.cid} opt={oname} rustc-rejects {sig}",
                                 {"cid": c.cid, "opt": oname, "predicate": f"{sig}|{structure_class(c)}|{oname}", "source": c.source(),
                                  "why": " | ".join(msgs)[:600]})
    # shapes about MODULE structure (which namespace needs which helper type) alone in their header: in a shared header a later
    # shape's namespace would mask what an earlier one does to the helper definitions
    if not only or only.get("solo"):
        solo = [c for c in cxx_shapes() if c.cid.startswith(("cxx-shape(ns-", "cxx-shape(global-"))]
        if only:
            solo = [c for c in solo if c.cid == only.get("cid")]
        for oname, flags in (("namespaces", ["--enable-cxx-namespaces"]), ("namespaces+sort", ["--enable-cxx-namespaces", "--sort-semantically", "--merge-extern-blocks"])):
            batches = [(f"solo_{oname.replace('+', '_')}_{k}", [c]) for k, c in enumerate(solo)]
            res, _ = probes.compile_batches(batches, os.path.join(wd, "solo_" + oname.replace("+", "_")), flags, lang="cpp", contexts=False, edition="2021", prelude="#![allow(warnings)]\n")
            for c in solo:
                ck.count()
                ck.nontriv((c.cid, "solo", oname))
                msgs = res.get(c.tag)
                if msgs:
                    sig = signature(msgs)
                    ck.violation(f"{c.cid} alone opt={oname} rustc-rejects {sig}", {"cid": c.cid, "opt": oname, "solo": True, "predicate": f"{sig}|{structure_class(c)}|{oname}",
                                                                                  "source": c.source(), "why": " | ".join(msgs)[:600]})
    if not only or only.get("callbacks"):
        renaming_callbacks(ck, only)
    if not only or only.get("pair"):
        option_pairs(ck, recs, only, failed_default)
    ck.sample({"record": fam_c[len(fam_c) // 2].cid if fam_c else None, "cxx": fam_cpp[3].cid if len(fam_cpp) > 3 else None})
    if (not only or only.get("header")) and not os.environ.get("VERIF_C01_SHAPES_ONLY"):
        repo_headers(ck, only)
    ck.extra["records"] = len(fam_c)
    ck.extra["cxx_cases"] = len(fam_cpp)
    ck.extra["option_rows"] = len(opts)
    ck.assume("headers that need a cooperating callback, an external crate (objc, block, libloading) or a nightly-only feature are outside the "
              "claim and skipped by rule; single-edit mutants of repository headers are exercised by C12 (panic-freedom), not compiled here")


SKIP_FLAGS = ("--dynamic-loading", "--generate-block", "--no-recursive-allowlist", "--rust-target=nightly", "nightly", "--objc-extern-crate",
              "--block-extern-crate", "--represent-cxx-operators", "--use-distinct-char16-t", "--no-layout-tests-placeholder")


def repo_headers(ck, only):
    wd = os.path.join(ck.wd, "repo")
    os.makedirs(wd, exist_ok=True)
    hs = common.repo_headers()
    if ck.tier == "quick":
        hs = [h for k, h in enumerate(hs) if (k + ck.seed) % 5 == 0]
    jobs, meta = [], {}
    skipped = 0
    for h in hs:
        bn = os.path.basename(h)
        if only and only.get("header") != bn:
            continue
        args, cb = common.repo_header_args(h)
        foreign = any(a.startswith("--target=") and not a.startswith("--target=x86_64-unknown-linux") for a in args)
        if foreign or cb or bn.startswith("objc") or any(any(f == s or f.startswith(s + "=") for s in SKIP_FLAGS) for f in args) or "blocks" in bn:
            skipped += 1
            continue
        jobs.append({"id": bn, "args": args, "timeout": 60})
        meta[bn] = args
    res = common.run_jobs(jobs, wd, timeout=60, cwd=os.path.dirname(os.path.dirname(common.HEADERS)))

    def comp(bn):
        r = res[bn]
        if r["status"] != "ok":
            return bn, None, None
        args = meta[bn]
        ed = "2021"
        for k, a in enumerate(args):
            if a.startswith("--rust-edition"):
                ed = a.split("=")[1] if "=" in a else args[k + 1]
            if a.startswith("--rust-target") and ("1.3" in a or "1.4" in a or "1.5" in (a.split("=")[1] if "=" in a else args[min(k + 1, len(args) - 1)])[:4]):
                pass
        d = os.path.join(wd, common.sha(bn))
        os.makedirs(d, exist_ok=True)
        p = os.path.join(d, "b.rs")
        text = r["text"]
        pre = "" if text.lstrip().startswith("#![") else "#![allow(warnings)]\n"
        open(p, "w").write(pre + text)
        # a header whose own flags put a user attribute `cfg(test)` on items is compiled in that configuration (the field the
        # layout assertion names exists only there); everything else is compiled as a plain library
        extra = ["--cfg", "test"] if any("cfg(test)" in a for a in args) or "cfg(test)" in open(os.path.join(common.HEADERS, bn), errors="replace").read() else None
        ok, err = common.rustc_meta(p, edition=ed, extra=extra)
        return bn, ok, err

    for bn, ok, err in common.pmap(comp, list(meta)):
        ck.count()
        if ok is None:
            continue
        ck.nontriv(("repo", bn))
        if not ok and "couldn't read" in err:
            continue  # the header's own raw lines pull in a file of the repository's expectation crate: outside the claim
        if not ok:
            codes = signature([err])
            ck.violation(f"repo-header {bn} rustc-rejects {codes}", {"header": bn, "predicate": f"repo|{codes}", "why": err[:700]})
    ck.extra["repository_headers_compiled"] = len(meta)
    ck.extra["repository_headers_skipped_by_rule"] = skipped


def replay(ck, case, detail):
    n0 = len(ck.violations)
    run(ck, only=detail)
    return not any(c == case for c, _ in ck.violations[n0:])
