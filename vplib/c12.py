"""C12 - generation always ends with bindings or an error value, never a panic.

Fault / input enumeration, every job in a worker process under catch_unwind + watchdog + address-space cap
(a worker that dies, overflows its stack, or hangs is attributed to the job in flight):
 (i)   every single-line mutant (delete line i, duplicate line i, swap lines i/i+1, for EVERY i) of the
       repository headers, classified by `clang -fsyntax-only` with the same arguments;
 (ii)  nesting depth 1..200 in four families; (iii) every option row of the C13 table (k<=1) on repository
       headers; (iv) input-path faults and fatal-only clang rejections.
Oracle: accepted => Ok; rejected => Err(ClangDiagnostic) carrying clang's message; path faults => their
specific error; never panic / abort / signal / timeout.
"""
import os
import re
import shutil

from . import common
from .common import Check
from . import c13

LEVEL = "fault_enumeration"
TESTS_DIR = os.path.dirname(common.HEADERS)            # /repo/bindgen-tests/tests
CWD = os.path.dirname(TESTS_DIR)                       # /repo/bindgen-tests (flag lines use paths relative to it)
# headers whose behaviour depends on a cooperating callback or on Objective-C runtime headers
SKIP = ("objc",)


def clang_args_of(args):
    """clang arguments bindgen will use for this flag list (the part after `--`), plus the language implied by the file name."""
    i = args.index("--") if "--" in args else len(args)
    return args[i + 1:]


def classify(path, cargs, cwd):
    """clang 14 binary with bindgen's arguments and default diagnostic options (warnings that default to errors stay errors):
    (accepted?, first error message). An input on which clang itself crashes is neither accepted nor rejected: ("oracle-crashed", ..)."""
    rc, _, err = common.clang(["-fsyntax-only", "-fno-spell-checking"] + cargs + [path], cwd=cwd, timeout=60)
    if rc not in (0, 1) or "PLEASE submit a bug report" in err:
        return "oracle-crashed", "clang itself crashes on this input"
    m = re.search(r"(?:fatal error|error): (.*)", err)
    return rc == 0, (m.group(1).strip() if m else err.strip()[:200])


def mutants_of(path):
    lines = open(path, errors="surrogateescape").read().split("\n")
    idx = [i for i, l in enumerate(lines) if not l.startswith("// bindgen")]
    out = []
    for i in idx:
        if lines[i].strip() == "":
            continue
        out.append((f"del{i}", lines[:i] + lines[i + 1:]))
        out.append((f"dup{i}", lines[:i + 1] + [lines[i]] + lines[i + 1:]))
        if i + 1 < len(lines) and not lines[i + 1].startswith("// bindgen") and lines[i + 1] != lines[i]:
            out.append((f"swp{i}", lines[:i] + [lines[i + 1], lines[i]] + lines[i + 2:]))
    return out


SUBST_TOKENS = ["int", "void", "0", "x9", "struct", "const", "unsigned long", "T", "virtual", "template", "typename", "-1"]
IDENT = re.compile(r"[A-Za-z_][A-Za-z_0-9]*|\b\d+\b")


def token_mutants(path, step):
    """Replace every `step`-th identifier / integer literal occurrence by every substitution token (one edit per mutant)."""
    text = open(path, errors="surrogateescape").read()
    out = []
    k = 0
    for ln, line in enumerate(text.split("\n")):
        if line.startswith("// bindgen") or line.lstrip().startswith("//"):
            continue
        for m in IDENT.finditer(line):
            k += 1
            if k % step:
                continue
            for ti, tok in enumerate(SUBST_TOKENS):
                if tok == m.group(0):
                    continue
                lines = text.split("\n")
                lines[ln] = line[:m.start()] + tok + line[m.end():]
                out.append((f"sub{ln}_{m.start()}_{ti}", lines))
    return out


def new_check(tier):
    return Check("C12", tier, LEVEL,
                 "inputs = every delete/duplicate/swap single-line mutant of repository headers (classified by clang -fsyntax-only), "
                 "nesting depth 1..200 x 4 families, every option row (k<=1) x repository headers, input-path faults; non-trivial = "
                 "mutant that differs from the original after whitespace normalisation, or a fault case")


def judge(ck, case, det, r, accepted, msg, nontriv_key=None):
    st = r["status"]
    if accepted == "oracle-crashed":
        # outside the quantifier: clang neither accepts nor rejects an input that crashes clang
        ck.extra["inputs_on_which_clang_itself_crashes"] = ck.extra.get("inputs_on_which_clang_itself_crashes", 0) + 1
        return
    if st in ("panic", "crash", "timeout"):
        why = {"panic": f"panicked: {r.get('panic')}", "crash": f"process died (exit {r.get('exit_code')}, signal {r.get('signal')})",
               "timeout": "did not terminate within the watchdog"}[st]
        ck.violation(case + " " + st, dict(det, why=why, predicate=panic_site(r)))
        return
    if accepted is None:
        return
    if accepted and st != "ok":
        ck.violation(case + " accepted-but-error", dict(det, why=f"clang accepts this input but bindgen returned {st} {r.get('err_kind')}: {str(r.get('err'))[:300]}"))
    elif not accepted:
        if st == "ok":
            ck.violation(case + " rejected-but-bindings", dict(det, why=f"clang rejects this input ({msg}) but bindgen produced bindings"))
        elif r.get("err_kind") != "ClangDiagnostic":
            ck.violation(case + " rejected-wrong-error", dict(det, why=f"clang rejects this input ({msg}) but bindgen returned {r.get('err_kind')}: {str(r.get('err'))[:200]}"))
        elif msg and msg[:60] not in (r.get("err") or ""):
            ck.violation(case + " rejected-without-clang-message", dict(det, why=f"error does not carry clang's diagnostic `{msg[:80]}`: {str(r.get('err'))[:300]}"))


def panic_site(r):
    p = r.get("panic") or ""
    m = re.search(r"@ (\S+:\d+)", p)
    return "panic@" + m.group(1) if m else None


def run(ck, only=None):
    wd = ck.wd
    mdir = os.path.join(wd, "mut")
    os.makedirs(mdir, exist_ok=True)
    hs = [h for h in common.repo_headers() if not any(s in os.path.basename(h) for s in SKIP)]
    base = {}
    for h in hs:
        args, cb = common.repo_header_args(h)
        if cb:
            continue
        base[h] = args
    sel = list(base)
    if ck.tier == "quick":
        sel = [h for k, h in enumerate(sel) if (k + ck.seed) % 16 == 0]
        ck.cap("quick tier: every 16th repository header (rotated by VERIF_SEED) for mutants and option rows; thorough: all")
    extra_inc = ["-I", common.HEADERS]

    # ---- (i) mutants -----------------------------------------------------------------
    if not only or only.get("kind") == "mutant":
        jobs, info = [], {}
        # identifier / literal substitution on a 60-header subset; splices between headers of the same language on a 30-header subset
        allh = list(base)
        subst_sel = set(allh[::10][:60]) if ck.tier == "thorough" else set(sel[::6])
        sp = allh[::20][:30] if ck.tier == "thorough" else sel[::8]
        splice_partner = {h: [o for o in sp if o != h and o.endswith(os.path.splitext(h)[1])] for h in sp}
        for h in sorted(set(sel) | subst_sel | set(sp), key=allh.index):
            bn = os.path.basename(h)
            if only and only.get("header") != bn:
                continue
            args = base[h]
            hi = args.index(h)
            orig_norm = re.sub(r"\s+", " ", open(h, errors="surrogateescape").read())
            cases = [("orig", open(h, errors="surrogateescape").read().split("\n"))] + mutants_of(h)
            if h in subst_sel:
                cases += token_mutants(h, 1 if ck.tier == "thorough" else 7)
            for other in splice_partner.get(h, ()):
                a = open(h, errors="surrogateescape").read().split("\n")
                b = [l for l in open(other, errors="surrogateescape").read().split("\n") if not l.startswith("// bindgen")]
                cases.append((f"splice_{os.path.basename(other)}", a[:len(a) // 2] + b[len(b) // 2:]))
            seen_text = set()
            for mname, lines in cases:
                if only and only.get("mutant") != mname:
                    continue
                text = "\n".join(lines)
                norm = re.sub(r"\s+", " ", text)
                if norm in seen_text:
                    continue
                seen_text.add(norm)
                stem, ext = os.path.splitext(bn)
                mp = os.path.join(mdir, f"{stem}__{mname}{ext}")
                with open(mp, "w", errors="surrogateescape") as f:
                    f.write(text)
                a = list(args)
                a[hi] = mp
                if "--" not in a:
                    a.append("--")
                a += extra_inc
                jid = f"m|{bn}|{mname}"
                jobs.append({"id": jid, "args": a, "text": False, "timeout": 30})
                info[jid] = (mp, a, norm != orig_norm)
        res = common.run_jobs(jobs, wd, timeout=30, cwd=CWD)

        def cls(jid):
            mp, a, _ = info[jid]
            return jid, classify(mp, clang_args_of(a), CWD)

        # classification is only needed where bindgen did not panic; do all (cheap)
        klass = dict(common.pmap(cls, list(info)))
        calibrated = {}
        for jid in info:
            _, bn, mname = jid.split("|")
            if mname == "orig":
                acc, _ = klass[jid]
                st = res[jid]["status"]
                # calibration: the clang binary and libclang-through-bindgen must agree on the unmutated header
                calibrated[bn] = (acc is True and st == "ok") or (acc is False and st == "err")
        nacc = nrej = 0
        for jid in sorted(info):
            _, bn, mname = jid.split("|")
            mp, a, differs = info[jid]
            acc, msg = klass[jid]
            ck.count()
            if differs:
                ck.nontriv(jid)
            nacc += (acc is True)
            nrej += (acc is False)
            det = {"kind": "mutant", "header": bn, "mutant": mname}
            judge(ck, f"mutant {bn} {mname}", det, res[jid], acc if (calibrated.get(bn) or acc == "oracle-crashed") else None, msg)
        ck.extra["mutants"] = len(info)
        ck.extra["mutants_accepted_by_clang"] = nacc
        ck.extra["mutants_rejected_by_clang"] = nrej
        ck.extra["headers_not_calibrated"] = sorted(b for b, v in calibrated.items() if not v)
        if not only:
            common.guard(nacc > 50 and nrej > 50, "C12 vacuity: mutants are not split between accepted and rejected")
        ck.sample({"mutant": "delete line i / duplicate line i / swap lines i,i+1 of a repository header", "example": jobs[1]["id"] if len(jobs) > 1 else None})

    # ---- (ii) nesting depth ----------------------------------------------------------
    if not only or only.get("kind") == "depth":
        depths = range(1, 201) if ck.tier == "thorough" else [1, 2, 10, 50, 100, 150, 200]
        jobs, info = [], {}
        for d in depths:
            fam = {
                "structs.h": "".join(f"struct N{i} {{ int v{i}; " for i in range(d)) + "".join(f"}} m{i};" for i in reversed(range(d))).replace("} m0;", "};", 1)[::1],
                "pointers.h": "int " + "*" * d + "p;\n",
                "arrays.h": "int a" + "[1]" * d + ";\n",
                "templates.hpp": "template <typename T> struct B { T t; };\n" + "B<" * d + "int" + " >" * d + " v;\n",
            }
            # nested structs: struct N0 { int v0; struct N1 { ... } m1; };
            s = ""
            for i in reversed(range(d)):
                s = f"struct N{i} {{ int v{i}; {s} }}" + (f" m{i};" if i else ";")
            fam["structs.h"] = s + "\n"
            for name, text in fam.items():
                if only and (only.get("depth") != d or only.get("family") != name):
                    continue
                stem, ext = os.path.splitext(name)
                p = os.path.join(wd, f"depth_{stem}_{d}{ext}")
                open(p, "w").write(text)
                jid = f"d|{name}|{d}"
                jobs.append({"id": jid, "args": [p] + (["--", "-x", "c++", "-std=c++14"] if ext == ".hpp" else []), "text": False, "timeout": 60})
                info[jid] = p
        res = common.run_jobs(jobs, wd, timeout=60)
        for jid, p in info.items():
            _, name, d = jid.split("|")
            acc, msg = classify(p, ["-x", "c++", "-std=c++14"] if name.endswith(".hpp") else [], wd)
            ck.count()
            ck.nontriv(jid)
            judge(ck, f"depth family={name} depth={d}", {"kind": "depth", "family": name, "depth": int(d)}, res[jid], acc, msg)
        # the same inputs through the production CLI binary: the process-level set-up (which thread generates, with what stack)
        # is part of what a user runs
        common.build_cli()
        common.build_cli_dev()

        def cli_one(item):
            jid, p, exe = item
            name = jid.split("|")[1]
            cmd = [exe, p, "--formatter", "none"] + (["--", "-x", "c++", "-std=c++14"] if name.endswith(".hpp") else [])
            try:
                pr = common.sh(cmd, timeout=120, cwd=wd)
                return jid, exe, pr.returncode, pr.stderr.decode(errors="replace")[-300:]
            except Exception as e:
                return jid, exe, "timeout", str(e)[:100]
        cli_items = [(jid, p, exe) for jid, p in info.items() if ck.tier == "quick" or int(jid.split("|")[2]) % 10 == 0 or int(jid.split("|")[2]) < 4
                     for exe in (common.CLI, common.CLI_DEV)]
        for jid, exe, rc, err in common.pmap(cli_one, cli_items):
            _, name, d = jid.split("|")
            prof = "dev" if exe == common.CLI_DEV else "release"
            acc, msg = classify(info[jid], ["-x", "c++", "-std=c++14"] if name.endswith(".hpp") else [], wd)
            ck.count()
            ck.nontriv("cli" + prof + jid)
            det = {"kind": "depth", "family": name, "depth": int(d), "cli": True}
            if acc not in (True, False):
                continue
            if rc == "timeout" or (isinstance(rc, int) and (rc < 0 or rc > 1 or (acc and rc != 0))):
                ck.violation(f"depth-cli[{prof}] family={name} depth={d} exit={rc}", dict(det, why=f"the {prof}-profile bindgen binary ended with {rc} on a header clang {'accepts' if acc else 'rejects'}: {err}"))
            elif not acc and rc == 0:
                ck.violation(f"depth-cli[{prof}] family={name} depth={d} bindings-for-rejected", dict(det, why=f"the {prof}-profile bindgen binary produced bindings for a header clang rejects"))
        ck.extra["depth_cases_through_cli"] = len(cli_items)

    # ---- (vii) generations on threads other than the one that generated first ---------
    if not only or only.get("kind") == "threads":
        hs = [h for k, h in enumerate(common.repo_headers()) if k % (40 if ck.tier == "quick" else 6) == 3]
        jobs, info = [], {}
        for h in hs:
            if only and only.get("header") != os.path.basename(h):
                continue
            args, cb = common.repo_header_args(h)
            if cb:
                continue
            jid = "thr|" + os.path.basename(h)
            jobs.append({"id": jid, "mode": "history", "jobs": [{"args": args}, {"args": args}, {"args": args}], "fresh": True, "thread_per_generation": True, "timeout": 120})
            info[jid] = h
        res = common.run_jobs(jobs, wd, timeout=120)
        for jid, h in info.items():
            r = res[jid]
            ck.count()
            ck.nontriv(jid)
            det = {"kind": "threads", "header": os.path.basename(h)}
            if r["status"] != "ok":
                ck.violation(f"threads header={os.path.basename(h)} {r['status']}", dict(det, why=f"three generations, each on a thread of its own: process {r['status']}: {str(r)[:200]}"))
                continue
            sts = [o.get("status") for o in r["outs"]]
            if "panic" in sts or len(set(sts)) != 1:
                ck.violation(f"threads header={os.path.basename(h)} statuses={sts}", dict(det, why=f"three generations of one header, each on a thread of its own, ended {sts}: {[str(o.get('panic') or o.get('err'))[:120] for o in r['outs']]}"))
        ck.extra["second_thread_histories"] = len(info)
        # generations of DIFFERENT inputs one after the other in one process: what an earlier one found out about the system
        # (include directories, the language) must not be applied to a later one
        sysd = os.path.join(wd, "sys")
        os.makedirs(sysd, exist_ok=True)
        files = {"sys_c.h": "#include <stdlib.h>\n#include <stdint.h>\nstruct SC { size_t n; uint32_t u; };\n",
                 "sys_cpp.hpp": "#include <cstdlib>\n#include <cmath>\nstruct SP { std::size_t n; };\n",
                 "plain_c.h": "struct PC { int a; };\n", "plain_cpp.hpp": "namespace n { struct PP { int a; }; }\n"}
        for n_, t in files.items():
            open(os.path.join(sysd, n_), "w").write(t)
        names_ = sorted(files)
        import itertools as _it
        jobs2 = []
        for seq in list(_it.permutations(names_, 2)) + list(_it.permutations(names_, 3)):
            if only and only.get("seq") != list(seq):
                continue
            for thr in (False, True):
                jobs2.append({"id": "seq|" + ",".join(seq) + f"|{int(thr)}", "mode": "history", "fresh": True, "thread_per_generation": thr, "timeout": 120,
                              "jobs": [{"args": [os.path.join(sysd, h), "--allowlist-file", ".*/sys/.*"]} for h in seq]})
        res2 = common.run_jobs(jobs2, wd, timeout=120)
        for jid, r in res2.items():
            _, seqs, thr = jid.split("|")
            ck.count()
            ck.nontriv(jid)
            det = {"kind": "threads", "seq": seqs.split(",")}
            sts = [o.get("status") for o in r.get("outs", [])] if r["status"] == "ok" else [r["status"]]
            if any(st != "ok" for st in sts):
                why = [str(o.get("err") or o.get("panic"))[:160] for o in r.get("outs", []) if o.get("status") != "ok"]
                ck.violation(f"sequence inputs={seqs} thread-per-generation={thr} statuses={sts}", dict(det, why=f"every one of these headers is accepted on its own; in this order one generation ended {sts}: {why[:1]}"))
        ck.extra["input_sequences_in_one_process"] = len(jobs2)

    # ---- (v) calling-convention and type attributes in every declarator position -------
    if not only or only.get("kind") == "attr":
        ccs = ["cdecl", "stdcall", "fastcall", "thiscall", "vectorcall", "pascal", "ms_abi", "sysv_abi", "regcall", "preserve_most", "preserve_all",
               "swiftcall", "intel_ocl_bicc", 'pcs("aapcs")', 'pcs("aapcs-vfp")', "aarch64_vector_pcs", "noreturn", "nothrow", "pure", "const", "warn_unused_result",
               "naked", "weak", 'alias("x")', "always_inline", "noinline", "cold", "hot", "malloc", "returns_twice", "nonnull", "used", "unused", "deprecated",
               'section("s")', 'visibility("hidden")', "no_caller_saved_registers", "interrupt", "ifunc(\"r\")", "constructor", "destructor", "format(printf, 1, 2)",
               "sentinel", "overloadable", "flatten", "artificial", "gnu_inline", "nodebug", "minsize", "optnone", "no_split_stack", "leaf"]
        shapes = {"function": "void __attribute__((@A@)) f(int a, ...);\nint ok_after;\n",
                  "function-def-inline": "static inline int __attribute__((@A@)) g(int a) { return a; }\nint ok_after;\n",
                  "fnptr-typedef": "typedef int (__attribute__((@A@)) *fp_t)(int);\nstruct S { char c; fp_t f; int after; };\nint use(fp_t p);\n",
                  "fnptr-member": "struct S { int (__attribute__((@A@)) *m)(int, char); int after; };\n",
                  "fnptr-param": "int take(int (__attribute__((@A@)) *cb)(int), int n);\n",
                  "fn-typedef": "typedef int __attribute__((@A@)) fn_t(int);\nfn_t declared_through_typedef;\nstruct H { fn_t *p; };\n",
                  "method.hpp": "struct C { int __attribute__((@A@)) m(int); static void __attribute__((@A@)) s(); int v; };\n"}
        rows = [("default", []), ("rust160", ["--rust-target", "1.60"]), ("i686", ["--", "--target=i686-unknown-linux-gnu"]),
                ("inline+wrap", ["--generate-inline-functions"])]
        if ck.tier != "thorough":
            rows = rows[:2] + [rows[2 + ck.seed % 2]]
        # targets whose object format decorates symbols or whose default conventions differ (only the calling conventions: the
        # other attributes do not interact with the target), plus an ABI override on top
        trows = [("darwin64", ["--", "--target=x86_64-apple-darwin"]), ("darwin32", ["--", "--target=i386-apple-darwin"]), ("win32", ["--", "--target=i686-pc-windows-msvc"]),
                 ("win64", ["--", "--target=x86_64-pc-windows-msvc"]), ("aarch64", ["--", "--target=aarch64-unknown-linux-gnu"]),
                 ("darwin64+override", ["--override-abi", "f|g|take|use|declared_through_typedef=stdcall", "--", "--target=x86_64-apple-darwin"]),
                 ("win32+override", ["--override-abi", "f|g|take|use|declared_through_typedef=fastcall", "--", "--target=i686-pc-windows-msvc"])]
        if ck.tier != "thorough":
            trows = [r for k, r in enumerate(trows) if k in (0, 1, 2, 5)]
        ncc = 16   # the first 16 entries of ccs are calling conventions
        jobs, info = [], {}
        for ai, a in enumerate(ccs):
            for sname, text in shapes.items():
                ext = ".hpp" if sname.endswith(".hpp") else ".h"
                p = os.path.join(wd, f"attr_{ai}_{sname.replace('.hpp', '')}{ext}")
                open(p, "w").write(text.replace("@A@", a))
                for rname, fl in rows + (trows if ai < ncc else []):
                    if only and (only.get("attr") != a or only.get("shape") != sname or only.get("row") != rname):
                        continue
                    pre = [x for x in fl if "--" not in fl or fl.index(x) < fl.index("--")]
                    post = fl[fl.index("--") + 1:] if "--" in fl else []
                    cargs = post + (["-x", "c++", "-std=c++14"] if ext == ".hpp" else [])
                    jid = f"a|{ai}|{sname}|{rname}"
                    jobs.append({"id": jid, "args": [p] + pre + (["--"] + cargs if cargs else []), "text": False, "timeout": 60})
                    info[jid] = (p, a, sname, rname, cargs)
        res = common.run_jobs(jobs, wd, timeout=60)
        klass = dict(common.pmap(lambda jid: (jid, classify(info[jid][0], info[jid][4], wd)), list(info)))
        nacc = 0
        for jid, (p, a, sname, rname, cargs) in info.items():
            acc, msg = klass[jid]
            if acc is True and res[jid]["status"] == "crash" and sname == "method.hpp":
                # -fsyntax-only never mangles a name; bindgen asks libclang for the mangled names. If clang itself crashes when it
                # has to mangle these methods for this target, the input is outside the quantifier like any other clang crash
                up = p + ".use.cc"
                open(up, "w").write(f'#include "{p}"\nvoid u(C *c) {{ c->m(1); C::s(); }}\n')
                rc2, _, err2 = common.clang(cargs + ["-S", "-emit-llvm", "-o", "/dev/null", up], cwd=wd, timeout=60)
                if rc2 not in (0, 1) or "PLEASE submit a bug report" in err2:
                    acc, msg = "oracle-crashed", "clang itself crashes when it mangles these declarations"
            nacc += acc is True
            ck.count()
            ck.nontriv(jid)
            judge(ck, f"attribute {a} shape={sname} row={rname}", {"kind": "attr", "attr": a, "shape": sname, "row": rname}, res[jid], acc, msg)
        ck.extra["attribute_cases"] = len(info)
        ck.extra["attribute_cases_accepted_by_clang"] = nacc

    # ---- (vi) option PAIRS on rich feature headers -------------------------------------
    if not only or only.get("kind") == "pair":
        rich_c = c13.FEAT_C + """
struct NE { enum { NE_A, NE_B, NE_C = 1 } e; union { enum { NU_X, NU_Y } ux; int i; }; struct { enum { NS_P = 3 } p; } inner; };
union UE { enum { UE_A = 5, UE_B } k; int v; };
enum { TOPANON_A, TOPANON_B = 9 };
typedef enum { TD_A, TD_B } td_enum_t;
struct BFE { enum E be:3; unsigned :0; int z; td_enum_t t:2; };
struct Deep { struct { struct { union { int a; float b; } u; } l2; } l1; int (*cb)(struct Deep *, enum F); };
typedef struct { int anon_x; } anon_td_t; typedef union { int au; } anon_tu_t;
extern anon_td_t g_anon; const int k_const = 3; static const long long k_big = 1LL << 40;
"""
        rich_cpp = c13.FEAT_CPP + """
class CE { public: enum { CE_A, CE_B }; enum class Sc : short { P, Q } sc; enum Named { N0 } n; union { enum { CU_A } cu; int ci; }; };
namespace nse { enum { NSE_A = 1 }; struct H { enum { H_A, H_B } h; }; }
template <typename T> struct TE { enum { TE_A } te; T t; };
struct UsesTE { TE<int> a; };
"""
        hp_c, hp_cpp = os.path.join(wd, "rich.h"), os.path.join(wd, "rich.hpp")
        open(hp_c, "w").write(rich_c)
        open(hp_cpp, "w").write(rich_cpp)
        rows = [r for r in c13.rows() if r["name"] not in ("represent-cxx-operators", "use-distinct-char16-t") and not any(x in r["name"] for x in ("depfile", "wrap-static", "emit-ir", "rustfmt-conf"))]
        # the regex values that only exist to carry list separators (C13's subject) and the repeated-flag rows add nothing to a panic search
        rows = [r for r in rows if "{1,2}" not in r["name"] and "{1,1}" not in r["name"] and not r["name"].endswith("-repeated-descending")]
        pairs = [(a, b) for i, a in enumerate(rows) for b in rows[i + 1:]]
        if ck.tier != "thorough":
            # options about one subject interact most: every pair inside a subject group is always run
            groups = [("enum",), ("alias", "typedef"), ("union", "copy"), ("derive", "impl-"), ("namespace", "c-naming", "cxx"), ("layout", "padding", "align", "opaque")]

            def grp(r):
                return {gi for gi, keys in enumerate(groups) if any(k2 in r["name"] for k2 in keys)}
            pairs = [p for k, p in enumerate(pairs) if (k + ck.seed) % 8 == 0 or (grp(p[0]) & grp(p[1]))]
            ck.cap("quick tier: every pair inside a subject group (enum, alias, union, derive, naming, layout) plus a rotated eighth of the other pairs; thorough: all pairs")

        def split(fl):
            fl = c13.subst(fl, wd)
            if "--" in fl:
                k = fl.index("--")
                return fl[:k], fl[k + 1:]
            return fl, []

        jobs, info = [], {}
        for k, (a, b) in enumerate(pairs):
            fa, ca = split(a["flags"])
            fb, cb = split(b["flags"])
            for lang, hp, tail in (("c", hp_c, []), ("cpp", hp_cpp, ["-x", "c++", "-std=c++14"])):
                jid = f"p|{a['name']}|{b['name']}|{lang}"
                if only and only.get("pair") != jid:
                    continue
                jobs.append({"id": jid, "args": [hp] + fa + fb + ["--"] + ca + cb + tail, "text": False, "timeout": 60})
                info[jid] = (a["name"], b["name"], lang)
        res = common.run_jobs(jobs, wd, timeout=60)
        for jid, (an, bn2, lang) in info.items():
            ck.count()
            r = res[jid]
            if r["status"] == "crash" and r.get("exit_code") == 2:
                continue  # refused by the CLI parser (same flag twice / conflicting flags): an error value
            ck.nontriv(("pair", an, bn2))
            judge(ck, f"option-pair [{an}] + [{bn2}] hdr=rich-{lang}", {"kind": "pair", "pair": jid}, r, None, None)
        ck.extra["option_pair_runs"] = len(info)

    # ---- (iii) option rows on repository headers -----------------------------------
    if not only or only.get("kind") == "option":
        rows = [r for r in c13.rows() if r["name"] not in ("represent-cxx-operators", "use-distinct-char16-t")]
        osel = sel if ck.tier == "thorough" else sel[: max(8, len(sel) // 4)]
        jobs, info = [], {}
        for h in osel:
            bn = os.path.basename(h)
            if only and only.get("header") != bn:
                continue
            args = base[h]
            i = args.index("--") if "--" in args else len(args)
            for r in rows:
                if only and only.get("row") != r["name"]:
                    continue
                fl = c13.subst(r["flags"], wd)
                ca = []
                if "--" in fl:
                    k = fl.index("--")
                    fl, ca = fl[:k], fl[k + 1:]
                # a flag the header already sets cannot be given twice on a command line
                if any(f in args for f in fl if f.startswith("--")):
                    continue
                a = args[:i] + fl + (args[i:] if "--" in args else ["--"]) + ca
                jid = f"o|{bn}|{r['name']}"
                jobs.append({"id": jid, "args": a, "text": False, "timeout": 60})
                info[jid] = (h, r["name"])
        res = common.run_jobs(jobs, wd, timeout=60, cwd=CWD)
        for jid in info:
            ck.count()
            _, bn, rn = jid.split("|", 2)
            r = res[jid]
            det = {"kind": "option", "header": bn, "row": rn}
            if r["status"] == "crash" and r.get("exit_code") == 2:
                continue  # the CLI parser refused the combination (conflicting flags): an error value at the CLI level
            judge(ck, f"option hdr={bn} row={rn}", det, r, None, None)
            ck.nontriv(("row", rn))
        ck.extra["option_runs"] = len(info)

    # ---- (iv) input-path faults and fatal-only rejections ---------------------------
    if not only or only.get("kind") == "fault":
        fdir = os.path.join(wd, "faults")
        shutil.rmtree(fdir, ignore_errors=True)
        os.makedirs(fdir)
        P = lambda n: os.path.join(fdir, n)
        open(P("plain.h"), "w").write("int ok;\n")
        os.makedirs(P("a_dir.h"))
        open(P("mode000.h"), "w").write("int x;\n")
        os.chmod(P("mode000.h"), 0)
        open(P("mode200.h"), "w").write("int x;\n")
        os.chmod(P("mode200.h"), 0o200)
        open(P("empty.h"), "w").write("")
        os.symlink(P("nowhere.h"), P("dangling.h"))
        os.symlink(P("loop.h"), P("loop.h"))
        os.symlink(P("plain.h"), P("good_link.h"))
        open(P("missing_inc.h"), "w").write('#include "does_not_exist_anywhere.h"\nint after;\n')
        open(P("error_directive.h"), "w").write("#error stop here\nint after;\n")
        open(P("bracket_depth.h"), "w").write("enum { DEEP = " + "(" * 300 + "1" + ")" * 300 + " };\nint after_deep;\n")
        open(P("nonutf8.h"), "wb").write(b"int caf\xe9_name;\n// \xff\xfe comment\nint fine;\n")
        open(P("nonutf8_comment.h"), "wb").write(b"/** doc \xff\xfe */\nstruct D { int x; };\n")
        open(P("nul_byte.h"), "wb").write(b"int a;\x00int b;\n")
        open(P("unterminated.h"), "w").write("struct U { int x;\n")
        open(P("only_comment.h"), "w").write("/* nothing */\n")
        open(P("bom.h"), "wb").write(b"\xef\xbb\xbfint with_bom;\n")
        open(P("crlf.h"), "wb").write(b"struct C {\r\n  int x;\r\n};\r\n")
        open(P("macro_div0.h"), "w").write("#define DZ (1 / 0)\n#define MZ (7 % 0)\n#define UZ (1u / (2 - 2))\n#define SHL (1 << 100)\n#define SHN (1 << -1)\n#define OVF (9223372036854775807 + 1)\n#define MINDIV (0x8000000000000000 / -1)\nint after_macros;\n")
        open(P("macro_bounds.h"), "w").write("".join(f"#define B{i} {v}\n" for i, v in enumerate([
            "0x8000000000000000", "(1 << 63)", "(-9223372036854775807 - 1)", "0xffffffffffffffff", "(-1)", "(-128)", "(-129)", "(-32768)", "(-32769)",
            "(-2147483648)", "(-2147483649)", "255", "256", "65535", "65536", "4294967295", "4294967296", "9223372036854775807", "(0 - 0x7fffffffffffffff)",
            "(~0)", "(~0ull)", "(-0x8000000000000000)", "18446744073709551615u", "1e400", "0x1p-1080", "'\\377'", "(1 ? -1 : 1u)"])) + "int after_bounds;\n")
        faults = [
            ("macro-boundaries-default", [P("macro_bounds.h")], "ok"), ("macro-boundaries-fit", [P("macro_bounds.h"), "--fit-macro-constant-types"], "ok"),
            ("macro-boundaries-fit-signed", [P("macro_bounds.h"), "--fit-macro-constant-types", "--default-macro-constant-type", "signed"], "ok"),
            ("macro-boundaries-fallback", [P("macro_bounds.h"), "--clang-macro-fallback", "--clang-macro-fallback-build-dir", wd], "ok"),
            ("missing", [P("missing.h")], "NotExist"), ("directory", [P("a_dir.h")], "FolderAsHeader"),
            ("mode000", [P("mode000.h")], "InsufficientPermissions"), ("mode200", [P("mode200.h")], "InsufficientPermissions"),
            ("dangling-symlink", [P("dangling.h")], "NotExist"), ("symlink-loop", [P("loop.h")], "NotExist"),
            ("enotdir", [P("plain.h/inner.h")], "NotExist"), ("enametoolong", [P("n" * 300 + ".h")], "NotExist"),
            ("good-symlink", [P("good_link.h")], "ok"), ("empty-file", [P("empty.h")], "ok"), ("only-comment", [P("only_comment.h")], "ok"),
            ("bom", [P("bom.h")], "clang"), ("crlf", [P("crlf.h")], "ok"), ("macro-division-by-zero", [P("macro_div0.h")], "ok"),
            ("missing-include", [P("missing_inc.h")], "clang"), ("error-directive", [P("error_directive.h")], "clang"),
            ("bracket-depth", [P("bracket_depth.h")], "clang"), ("non-utf8-identifier", [P("nonutf8.h")], "clang"),
            ("non-utf8-doc-comment", [P("nonutf8_comment.h")], "clang"), ("nul-byte", [P("nul_byte.h")], "clang"),
            ("unterminated", [P("unterminated.h")], "clang"),
            ("edition-2021-on-1.51", [P("plain.h"), "--rust-target", "1.51", "--rust-edition", "2021"], "UnsupportedEdition"),
            ("edition-2024-on-1.82", [P("plain.h"), "--rust-target", "1.82", "--rust-edition", "2024"], "UnsupportedEdition"),
            ("bad-clang-arg", [P("plain.h"), "--", "--target=not-a-real-triple"], "clang"),
            ("second-header-missing", [P("plain.h"), "--", "-include", P("missing_second.h")], "clang"),
            ("system-header-nostdinc", [P("sysinc.h"), "--", "-nostdinc"], "clang"),
            ("system-header-default", [P("sysinc.h")], "ok"),
            ("system-header-bad-sysroot", [P("sysinc.h"), "--", "--sysroot=/nonexistent-sysroot", "-nostdinc"], "clang"),
        ]
        open(P("sysinc.h"), "w").write("#include <stdint.h>\n#include <stddef.h>\nuint32_t sys_fn(size_t n);\n")
        jobs = [{"id": f"f|{n}", "args": a, "text": False, "timeout": 30} for n, a, _ in faults if not only or only.get("fault") == n]
        res = common.run_jobs(jobs, wd, timeout=30)
        for n, a, exp in faults:
            if f"f|{n}" not in res:
                continue
            r = res[f"f|{n}"]
            ck.count()
            ck.nontriv(("fault", n))
            det = {"kind": "fault", "fault": n}
            case = f"fault {n}"
            if exp == "clang":
                acc, msg = classify(a[0], clang_args_of(a), wd)
                judge(ck, case, det, r, acc, msg)
            elif exp == "ok":
                judge(ck, case, det, r, True, None)
            else:
                if r["status"] in ("panic", "crash", "timeout"):
                    judge(ck, case, det, r, None, None)
                elif not (r["status"] == "err" and r.get("err_kind") == exp):
                    ck.violation(case + " wrong-error", dict(det, why=f"expected the specific error {exp}, got {r['status']} {r.get('err_kind')} {str(r.get('err'))[:200]}"))
        # the same inputs as the SECOND generation of a process whose first generation was an ordinary one: the verdict may not
        # depend on what an earlier generation found out about the system
        hjobs = [{"id": f"h|{n}", "mode": "history", "fresh": True, "timeout": 60, "jobs": [{"args": [P("sysinc.h")]}, {"args": a}]}
                 for n, a, _ in faults if (not only or only.get("fault") == n) and f"f|{n}" in res]
        hres = common.run_jobs(hjobs, wd, timeout=60)
        for n, a, exp in faults:
            h = hres.get(f"h|{n}")
            if h is None or f"f|{n}" not in res:
                continue
            ck.count()
            ck.nontriv(("fault-after-generation", n))
            solo = res[f"f|{n}"]
            if h.get("status") != "ok" or len(h.get("outs", [])) < 2:
                if solo["status"] in ("ok", "err"):
                    ck.violation(f"fault {n} after-another-generation process-died", {"kind": "fault", "fault": n, "why": f"alone: {solo['status']}; as second generation the process ended: {str(h)[:200]}"})
                continue
            second = h["outs"][1]
            first_line = lambda o: str(o.get("err") or "").strip().split("\n")[0][:120]
            if second.get("status") != solo.get("status") or (solo.get("status") == "err" and first_line(second) != first_line(solo)):
                ck.violation(f"fault {n} after-another-generation verdict-differs", {"kind": "fault", "fault": n,
                             "why": f"alone: {solo.get('status')} {first_line(solo)!r}; as the second generation of a process: {second.get('status')} {first_line(second)!r}"})
        os.chmod(P("mode000.h"), 0o644)
        os.chmod(P("mode200.h"), 0o644)
    ck.assume("classification oracle: the clang 14 binary with the same arguments as libclang 14 receives (calibrated per header on the "
              "unmutated text; headers where the two disagree already are judged for panics only)")


def replay(ck, case, detail):
    n0 = len(ck.violations)
    run(ck, only=detail)
    return not any(c == case for c, _ in ck.violations[n0:])
