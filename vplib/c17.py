"""C17 - reported dependencies are exactly the files that were read.

Explored: every include DAG on <= 4 (quick) / 5 (thorough) topologically numbered nodes (node 0 = input
header; unreachable nodes are decoys that must NOT be reported) x include form (quoted, <> via -I, <> via
-isystem, mixed) x guard style (none, #ifndef, #pragma once); conditional regions (#if 0 / #if 1 / #ifdef
UNDEFINED) on every edge of the <=3-node DAGs; repeated inclusion; odd file names one at a time; equal
base names in sibling directories; 1..3 input headers; header_contents input; environment variables.
Oracle: the generator's own reachability (ground truth by construction) cross-checked against `clang -M`
for every case with plain names; the depfile is parsed back by GNU make itself.
"""
import itertools
import json
import os
import re
import shutil

from . import common
from .common import Check

LEVEL = "exploration"

FORMS = ["quote", "angleI", "angleSys"]
GUARDS = ["none", "ifndef", "pragma"]


def dags(n):
    """All DAGs on nodes 0..n-1 with edges i->j only for i<j."""
    pairs = [(i, j) for i in range(n) for j in range(i + 1, n)]
    for mask in range(1 << len(pairs)):
        yield [p for k, p in enumerate(pairs) if mask >> k & 1]


def reach(edges, start=0, dead=()):
    seen, todo = {start}, [start]
    while todo:
        a = todo.pop()
        for (i, j) in edges:
            if i == a and (i, j) not in dead and j not in seen:
                seen.add(j)
                todo.append(j)
    return seen


class Case:
    def __init__(self, cid):
        self.cid = cid
        self.files = {}       # relpath -> content
        self.inputs = []      # relpaths of input headers (last is the main one)
        self.contents = None  # (name, text) for header_contents input
        self.clang_args = []  # with @D@ for the case directory
        self.expected = set()  # relpaths that are read
        self.plain = True     # names are plain => clang -M is consulted as oracle
        self.env = {}
        self.symlinks = {}    # relpath -> link target (relative to the link's directory): file-system conditions
        self.no_callbacks = False  # run through the CLI without any parse callback registered (depfile is then the only consumer)
        self.flags = []       # bindgen flags (before `--`) that select what is GENERATED; they must not change what is REPORTED


def node_name(i, names=None):
    return (names or {}).get(i, f"n{i}.h")


def include_line(form, target):
    return f'#include "{target}"' if form == "quote" else f"#include <{target}>"


def dag_case(cid, n, edges, form_of, guard, cond=None, names=None, dirs=None, repeat=False):
    """form_of: edge -> form; cond: (edge, kind) or None; dirs: node -> subdir."""
    c = Case(cid)
    dirs = dirs or {}
    dead = set()
    used_forms = set()
    for i in range(n):
        nm = node_name(i, names)
        lines = []
        if guard == "ifndef":
            lines += [f"#ifndef G_{i}", f"#define G_{i}"]
        elif guard == "pragma":
            lines += ["#pragma once"]
        lines.append(f"typedef int t{i};")
        lines.append(f"#define M{i} {i}")
        for (a, b) in edges:
            if a != i:
                continue
            form = form_of[(a, b)]
            used_forms.add(form)
            tgt = node_name(b, names)
            # quoted includes are resolved relative to the including file; angle ones through the search path
            if form == "quote":
                da, db = dirs.get(a, ""), dirs.get(b, "")
                rel = os.path.relpath(os.path.join(db, tgt), da or ".")
                inc = include_line(form, rel)
            else:
                inc = include_line(form, tgt)
            if cond and cond[0] == (a, b):
                kind = cond[1]
                if kind == "if0":
                    lines += ["#if 0", inc, "#endif"]
                    dead.add((a, b))
                elif kind == "if1":
                    lines += ["#if 1", inc, "#endif"]
                elif kind == "ifdef_undef":
                    lines += ["#ifdef SOME_UNDEFINED_MACRO", inc, "#else", f"#define ELSE_{a}_{b} 1", "#endif"]
                    dead.add((a, b))
                elif kind == "ifndef_undef":
                    lines += ["#ifndef SOME_UNDEFINED_MACRO", inc, "#endif"]
            else:
                lines.append(inc)
                if repeat:
                    lines.append(inc)
        lines.append(f"struct s{i}_{abs(hash(cid)) % 1000} ;" if False else f"extern t{i} v{i};")
        if guard == "ifndef":
            lines.append("#endif")
        c.files[os.path.join(dirs.get(i, ""), nm)] = "\n".join(lines) + "\n"
    c.inputs = [os.path.join(dirs.get(0, ""), node_name(0, names))]
    # search paths: every directory that holds an angle-included node
    incdirs = sorted({dirs.get(b, "") for (a, b) in edges if form_of[(a, b)] == "angleI"})
    sysdirs = sorted({dirs.get(b, "") for (a, b) in edges if form_of[(a, b)] == "angleSys"})
    for d in incdirs:
        c.clang_args += ["-I", os.path.join("@D@", d) if d else "@D@"]
    for d in sysdirs:
        c.clang_args += ["-isystem", os.path.join("@D@", d) if d else "@D@"]
    c.expected = {os.path.join(dirs.get(i, ""), node_name(i, names)) for i in reach(edges, 0, dead)}
    return c


def cases(tier):
    out = []
    nmax = 5 if tier == "thorough" else 4
    for n in range(1, nmax + 1):
        for k, edges in enumerate(dags(n)):
            if n > 1 and not any(j == n - 1 for (_, j) in edges) and not any(i == n - 1 for (i, _) in edges):
                pass  # isolated last node = decoy file; keep (must not be reported)
            variants = []
            for fi, form in enumerate(FORMS + ["mixed"]):
                for guard in GUARDS:
                    variants.append((form, guard))
            if tier == "quick" and n == nmax:
                # largest size in quick: two (form, guard) variants per DAG, rotated by the DAG index
                variants = [variants[(k * 5) % 12], variants[(k * 5 + 7) % 12]]
            for form, guard in variants:
                fo = {e: (FORMS[idx % 3] if form == "mixed" else form) for idx, e in enumerate(edges)}
                # unguarded files may be included twice along two paths: contents are typedef/macro only, legal in C11
                out.append(dag_case(f"dag n={n} e={edges} form={form} guard={guard}", n, edges, fo, guard))
    # conditional regions: every edge of every DAG with <= 3 nodes (4 thorough), each region kind
    for n in range(2, (4 if tier == "thorough" else 3) + 1):
        for edges in dags(n):
            for e in edges:
                for kind in ("if0", "if1", "ifdef_undef", "ifndef_undef"):
                    fo = {x: "quote" for x in edges}
                    out.append(dag_case(f"cond n={n} e={edges} at={e} kind={kind}", n, edges, fo, "ifndef", cond=(e, kind)))
    # repeated inclusion of the same file by one parent (diamond + chain)
    for edges in ([(0, 1)], [(0, 1), (0, 2), (1, 3), (2, 3)], [(0, 1), (1, 2)]):
        for guard in GUARDS:
            n = max(j for _, j in edges) + 1
            out.append(dag_case(f"repeat e={edges} guard={guard}", n, edges, {x: "quote" for x in edges}, guard, repeat=True))
    # odd file names, one at a time and together, on a diamond
    dia = [(0, 1), (0, 2), (1, 3), (2, 3)]
    odd = {"space": "sp ace.h", "backslash": "back\\slash.h", "hash": "ha#sh.h", "dollar": "dol$lar.h", "nonascii": "néü中.h",
           "percent": "p%c.h", "paren": "pa(r)en.h", "comma": "co,mma.h"}
    for key, nm in odd.items():
        for pos in (1, 3):
            c = dag_case(f"odd name={key} at={pos}", 4, dia, {x: "quote" for x in dia}, "ifndef", names={pos: nm})
            c.plain = False
            out.append(c)
    c = dag_case("odd all-together", 4, dia, {x: "quote" for x in dia}, "ifndef", names={1: odd["space"], 2: odd["dollar"], 3: odd["hash"]})
    c.plain = False
    out.append(c)
    # sub-directories reached through `..`, equal base names in sibling directories
    c = dag_case("dirs dotdot", 4, dia, {x: "quote" for x in dia}, "ifndef", dirs={0: "top", 1: "top/sub", 2: "other", 3: "top/sub/deep"})
    out.append(c)
    for guard in GUARDS:
        c = dag_case(f"same-basename guard={guard}", 5, [(0, 1), (0, 2), (1, 3), (2, 4)], {x: "quote" for x in [(0, 1), (0, 2), (1, 3), (2, 4)]}, guard,
                     names={3: "config.h", 4: "config.h", 1: "a.h", 2: "b.h"}, dirs={1: "liba", 3: "liba", 2: "libb", 4: "libb"})
        # two different files called config.h; make their guards/contents distinct
        for rel in ("liba/config.h", "libb/config.h"):
            tag = rel.split("/")[0].upper()
            c.files[rel] = f"#ifndef CFG_{tag}\n#define CFG_{tag}\ntypedef int cfg_{tag.lower()}_t;\n#endif\n"
        out.append(c)
    c = dag_case("same-basename angle", 5, [(0, 1), (0, 2), (1, 3), (2, 4)],
                 {(0, 1): "quote", (0, 2): "quote", (1, 3): "quote", (2, 4): "quote"}, "pragma",
                 names={3: "defs.h", 4: "defs.h", 1: "x.h", 2: "y.h"}, dirs={1: "d1", 3: "d1", 2: "d2", 4: "d2"})
    c.files["d1/defs.h"] = "#pragma once\ntypedef int defs_one_t;\n"
    c.files["d2/defs.h"] = "#pragma once\ntypedef long defs_two_t;\n"
    out.append(c)
    # several input headers; header_contents
    for k in (2, 3):
        c = Case(f"inputs x{k}")
        for i in range(k):
            c.files[f"in{i}.h"] = f"#include \"dep{i}.h\"\ntypedef int in{i}_t;\n"
            c.files[f"dep{i}.h"] = f"#pragma once\ntypedef int dep{i}_t;\n"
        c.files["decoy.h"] = "typedef int decoy_t;\n"
        c.inputs = [f"in{i}.h" for i in range(k)]
        c.expected = set(c.files) - {"decoy.h"}
        out.append(c)
    # options that select which items are generated (file/type/function filters, generators): every file that is read still
    # shapes the output (macros, layouts), so the dependency set must not move
    shapes = [("chain", 3, [(0, 1), (1, 2)]), ("diamond", 4, [(0, 1), (0, 2), (1, 3), (2, 3)]), ("fan", 4, [(0, 1), (0, 2), (0, 3)])]
    for sname, n, edges in shapes:
        rows = [(f"blocklist-file-h{b}", ["--blocklist-file", f".*n{b}\\.h"]) for b in range(1, n)]
        rows += [("blocklist-file-all-included", ["--blocklist-file", ".*n[1-9]\\.h"]), ("allowlist-file-root", ["--allowlist-file", ".*n0\\.h"]),
                 (f"allowlist-file-h{n - 1}", ["--allowlist-file", f".*n{n - 1}\\.h"]),
                 ("blocklist-type", ["--blocklist-type", "t1"]), ("blocklist-item-all", ["--blocklist-item", ".*"]), ("allowlist-type-root", ["--allowlist-type", "t0"]),
                 ("allowlist-norec", ["--allowlist-var", "v0", "--no-recursive-allowlist"]), ("ignore-functions", ["--ignore-functions"]),
                 ("generate-functions", ["--generate", "functions"]), ("opaque", ["--opaque-type", "t.*"]),
                 ("blocklist-file+allowlist-var", ["--blocklist-file", ".*n1\\.h", "--allowlist-var", "v.*"])]
        if tier != "thorough":
            rows = [r for k, r in enumerate(rows) if k < n or k % 2 == 0]
        for rname, fl in rows:
            for form in (FORMS if tier == "thorough" else ["quote"]):
                c = dag_case(f"options shape={sname} form={form} row={rname}", n, edges, {e: form for e in edges}, "ifndef")
                c.flags = fl
                out.append(c)
    # file-system conditions: symbolic links to directories and to files; `dir/..` through a link is NOT the link's parent
    c = Case("symlink dir dotdot")
    c.files = {"h0.h": '#include "proj/../common.h"\n#include "proj/inner.h"\nextern int v0;\n', "real/common.h": "#pragma once\ntypedef int real_common_t;\n",
               "real/sub/inner.h": "#pragma once\ntypedef int inner_t;\n", "common.h": "typedef int decoy_t;\n"}
    c.symlinks = {"proj": "real/sub"}
    c.inputs = ["h0.h"]
    c.expected = {"h0.h", "real/common.h", "real/sub/inner.h"}
    out.append(c)
    c = Case("symlink file")
    c.files = {"h0.h": '#include "api.h"\n#include "inc/link2.h"\nextern int v0;\n', "detail/api_v2.h": "#pragma once\ntypedef int api_t;\n#include \"sibling.h\"\n",
               "detail/sibling.h": "typedef int sib_t;\n", "sibling.h": "typedef int decoy_sib_t;\n", "other/target2.h": "typedef int t2_t;\n"}
    c.symlinks = {"api.h": "detail/api_v2.h", "inc/link2.h": "../other/target2.h"}
    c.inputs = ["h0.h"]
    # clang resolves `#include "sibling.h"` relative to the directory of the name it opened (the link's directory)
    c.expected = {"h0.h", "detail/api_v2.h", "sibling.h", "other/target2.h"}
    out.append(c)
    c = Case("symlink input header")
    c.files = {"real_input/h0.h": '#include "dep.h"\nextern int v0;\n', "real_input/dep.h": "typedef int dep_t;\n", "dep.h": "typedef int decoy_dep_t;\n"}
    c.symlinks = {"input.h": "real_input/h0.h"}
    c.inputs = ["input.h"]
    c.expected = {"real_input/h0.h", "dep.h"}
    out.append(c)
    # the same option rows with NO parse callback registered (the command-line default): the depfile is the only consumer of the
    # inclusion records
    for sname, n, edges in shapes:
        for rname, fl in [("defaults", []), ("generate-functions", ["--generate", "functions"]), ("generate-types", ["--generate", "types"]),
                          ("generate-functions-types", ["--generate", "functions,types"]), ("ignore-functions", ["--ignore-functions"]),
                          ("no-recursive", ["--allowlist-type", "t0", "--no-recursive-allowlist"]), ("blocklist-all", ["--blocklist-item", ".*"])]:
            c = dag_case(f"no-callbacks shape={sname} row={rname}", n, edges, {e: "quote" for e in edges}, "ifndef")
            c.flags = fl
            c.no_callbacks = True
            out.append(c)
    c = Case("header_contents")
    c.files["hc_dep.h"] = "#pragma once\ntypedef int hc_dep_t;\n#include \"hc_dep2.h\"\n"
    c.files["hc_dep2.h"] = "typedef int hc_dep2_t;\n"
    c.files["decoy.h"] = "typedef int decoy_t;\n"
    c.contents = ("@D@/virtual_input.h", '#include "hc_dep.h"\nhc_dep_t f(void);\n')
    c.expected = {"hc_dep.h", "hc_dep2.h"}
    c.plain = False
    out.append(c)
    # several in-memory inputs, and in-memory inputs next to real ones: a name that exists only in memory was never READ from the
    # file system, so it may be announced as an input header but never as an included FILE or a depfile prerequisite
    for nm, real, virt in (("header_contents-x2", [], ["virtual_a.h", "virtual_b.h"]), ("header+header_contents", ["real_in.h"], ["virtual_a.h"]),
                           ("header+header_contents-x2", ["real_in.h"], ["virtual_a.h", "virtual_b.h"])):
        c = Case(nm)
        c.files["hc_dep.h"] = "#pragma once\ntypedef int hc_dep_t;\n"
        c.files["decoy.h"] = "typedef int decoy_t;\n"
        for r in real:
            c.files[r] = "typedef long real_in_t;\n"
        c.inputs = list(real)
        c.contents_list = [("@D@/" + v, (f'#include "hc_dep.h"\nhc_dep_t f_{k}(void);\n' if k == 0 else f"int g_{k}(void);\n")) for k, v in enumerate(virt)]
        c.contents = c.contents_list[-1]
        c.expected = {"hc_dep.h"} | set(real)
        c.plain = False
        out.append(c)
    return out


def parse_make(depfile, wd):
    """Let GNU make parse the depfile; return (targets, prerequisites) as make understands them."""
    wrapper = depfile + ".mk"
    with open(wrapper, "w") as f:
        f.write("include " + os.path.basename(depfile) + "\n")
    p = common.sh(["make", "-rRpn", "-f", os.path.basename(wrapper)], cwd=os.path.dirname(depfile))
    txt = p.stdout.decode(errors="surrogateescape")
    m = re.search(r"^# Files\n(.*?)^# files hash-table stats", txt, re.S | re.M)
    if not m:
        return None, None
    names, with_prereqs = set(), []
    for line in m.group(1).splitlines():
        if not line or line.startswith("#") or line.startswith("\t") or ":" not in line:
            continue
        if line.rstrip().endswith(":"):
            names.add(line.rstrip()[:-1])
        else:
            with_prereqs.append(line)
    names -= {os.path.basename(wrapper), os.path.basename(depfile), ".DEFAULT", ".SUFFIXES"}
    txt = with_prereqs  # rule lines "target: prerequisites" (every prerequisite also has its own entry above)
    return names, txt


def new_check(tier):
    return Check("C17", tier, LEVEL,
                 "cases = include DAGs (all on <=4|5 nodes) x include form x guard style, conditional regions on every edge, repeated "
                 "inclusion, odd names, sibling directories, several inputs, header_contents, env vars; non-trivial = case with >= 1 "
                 "included file or >= 1 file that must not be reported")


def materialize(c, root):
    d = os.path.join(root, common.sha(c.cid))
    if os.path.isdir(d):
        shutil.rmtree(d)
    os.makedirs(d)
    for rel, content in c.files.items():
        p = os.path.join(d, rel)
        os.makedirs(os.path.dirname(p), exist_ok=True)
        with open(p, "w") as f:
            f.write(content)
    for rel, target in c.symlinks.items():
        p = os.path.join(d, rel)
        os.makedirs(os.path.dirname(p), exist_ok=True)
        os.symlink(target, p)
    return d


def run(ck, only=None):
    wd = ck.wd
    root = os.path.join(wd, "cases")
    os.makedirs(root, exist_ok=True)
    cs = cases(ck.tier)
    if only:
        cs = [c for c in cs if c.cid == only]
    jobs, info = [], {}
    for c in cs:
        d = materialize(c, root)
        cargs = [a.replace("@D@", d) for a in c.clang_args]
        args = [os.path.join(d, c.inputs[-1])] if c.inputs else []
        pre = []
        for h in c.inputs[:-1]:
            pre += ["-include", os.path.join(d, h)]
        job = {"id": c.cid, "callbacks": {"log": True},
               "args": args + c.flags + ["--depfile", os.path.join(d, "dep.d"), "-o", os.path.join(d, "out.rs"), "--no-layout-tests", "--"] + cargs + pre}
        if len(c.inputs) > 1:
            # several input headers through the library API: header() x k (vdriver `ops` on top of args)
            job = {"id": c.cid, "callbacks": {"log": True}, "mode": "gen_ops",
                   "ops": [["header", os.path.join(d, h)] for h in c.inputs] + [["depfile", os.path.join(d, "out.rs"), os.path.join(d, "dep.d")]],
                   "clang_args": cargs}
        if c.contents:
            lst = getattr(c, "contents_list", None) or [c.contents]
            job["header_contents"] = [[n.replace("@D@", d), t] for n, t in lst]
            job.pop("args", None)
            job["mode"] = "gen_ops"
            job["ops"] = [["header", os.path.join(d, h)] for h in c.inputs] + [["depfile", os.path.join(d, "out.rs"), os.path.join(d, "dep.d")]]
            job["clang_args"] = cargs + ["-I", d]
        if c.no_callbacks:
            job.pop("callbacks", None)
        jobs.append(job)
        info[c.cid] = (c, d, cargs)
    res = common.run_jobs(jobs, wd, timeout=30)

    def oracle(cid):
        c, d, cargs = info[cid]
        out = {"clangM": None}
        if c.plain and c.inputs:
            pre = []
            for h in c.inputs[:-1]:
                pre += ["-include", os.path.join(d, h)]
            rc, _, err = common.clang(["-M", "-MF", os.path.join(d, "clang.d")] + cargs + pre + [os.path.join(d, c.inputs[-1])])
            if rc == 0:
                txt = open(os.path.join(d, "clang.d")).read().replace("\\\n", " ")
                deps = txt.split(":", 1)[1].split()
                out["clangM"] = {os.path.relpath(os.path.realpath(p), os.path.realpath(d)) for p in deps}
            else:
                out["clangM_err"] = err[:300]
        names, rules = parse_make(os.path.join(d, "dep.d"), wd) if os.path.exists(os.path.join(d, "dep.d")) else (None, None)
        out["make"] = names
        out["make_rules"] = rules
        return cid, out

    orc = dict(common.pmap(oracle, list(info)))
    for cid, (c, d, cargs) in info.items():
        ck.count()
        r = res[cid]
        det = {"case": cid}
        if r["status"] != "ok":
            ck.violation(cid + " generation-failed", dict(det, why=f"bindgen failed on an accepted include graph: {r['status']} {r.get('err', r.get('panic'))}"[:400]))
            continue
        exp = set(c.expected)
        rd = os.path.realpath(d)

        def rel(p):
            return os.path.relpath(os.path.realpath(p), rd)

        if len(exp) > 1 or len(c.files) > len(exp):
            ck.nontriv(cid)
        o = orc[cid]
        if o.get("clangM") is not None and o["clangM"] != exp:
            raise common.Machinery(f"C17 generator and clang -M disagree on {cid}: gen={sorted(exp)} clang={sorted(o['clangM'])}")
        # (b) callback notifications
        cb_log = r.get("cb_log") or []
        hdrs = [l.split(" ", 1)[1] for l in cb_log if l.startswith("header_file ")]
        incs = [l.split(" ", 1)[1] for l in cb_log if l.startswith("include_file ")]
        cbset = {rel(p) for p in hdrs + incs}
        virt = {rel(n.replace("@D@", d)) for n, _ in (getattr(c, "contents_list", None) or [c.contents])} if c.contents else set()
        # an in-memory input may be announced as an input header; as an included file or a prerequisite it names something that
        # was never read (make: "No rule to make target")
        virt_inc = {rel(p) for p in incs} & virt if c.contents else set()
        if virt_inc:
            ck.violation(cid + " in-memory-input-reported-as-included-file", dict(det, why=f"include_file notifications name in-memory inputs that do not exist on disk: {sorted(virt_inc)}"))
        missing = exp - cbset if not c.no_callbacks else set()
        extra = cbset - exp - virt
        if missing:
            ck.violation(cid + " callbacks-missing", dict(det, why=f"files read but never reported through header_file/include_file: {sorted(missing)}"))
        if extra:
            ck.violation(cid + " callbacks-extra", dict(det, why=f"files reported through callbacks but not read: {sorted(extra)}"))
        # (a) depfile through GNU make
        names = o["make"]
        if names is None:
            ck.violation(cid + " depfile-missing", dict(det, why="no depfile written or make cannot parse it"))
            continue
        target = os.path.join(d, "out.rs")
        rules = o["make_rules"] or []
        if not (target in names or any(l.startswith(target + ":") for l in rules)):
            ck.violation(cid + " depfile-target", dict(det, why=f"depfile does not name the configured output {target}; make sees rules {rules[:3]}"))
        dset = set()
        for nme in names - {target}:
            p = nme if os.path.isabs(nme) else os.path.join(d, nme)
            dset.add(rel(p))
        missing = exp - dset
        extra = dset - exp - virt
        if missing:
            ck.violation(cid + " depfile-missing-prereq", dict(det, predicate=odd_predicate(c, missing), why=f"make does not find these read files among the depfile's prerequisites: {sorted(missing)} (make parsed: {sorted(dset)})"))
        elif extra:
            ck.violation(cid + " depfile-extra-prereq", dict(det, why=f"depfile lists files that were not read: {sorted(extra)}"))
        ck.sample({"case": cid, "files": sorted(c.files), "read": sorted(exp)}, limit=4)
    if not only:
        env_checks(ck)
    ck.extra["cases"] = len(cs)
    ck.assume("ground truth = reachability in the generated include graph, cross-checked against `clang -M` on every plain-named case; "
              "GNU make 4.3 parses the depfile")


def odd_predicate(c, missing):
    """Attribution for the known finding: only a backslash in a file name is involved."""
    if all("\\" in m for m in missing) and "backslash" in c.cid:
        return "backslash-doubled-for-make"
    return None


def env_checks(ck):
    """Every environment variable whose value influences the bindings is reported exactly once through
    read_env_var / cargo:rerun-if-env-changed; CargoCallbacks prints one rerun-if-changed per reported file."""
    wd = os.path.join(ck.wd, "env")
    os.makedirs(wd, exist_ok=True)
    h = os.path.join(wd, "envh.h")
    open(os.path.join(wd, "envdep.h"), "w").write("#pragma once\ntypedef int envdep_t;\n")
    open(h, "w").write('#include "envdep.h"\n#ifdef WIDE\ntypedef long long counter_t;\n#else\ntypedef short counter_t;\n#endif\n')
    triple = "x86_64-unknown-linux-gnu"
    cands = ["BINDGEN_EXTRA_CLANG_ARGS", f"BINDGEN_EXTRA_CLANG_ARGS_{triple}", f"BINDGEN_EXTRA_CLANG_ARGS_{triple.replace('-', '_')}"]
    for target_set in (False, True):
        base_env = dict(common.ENV)
        if target_set:
            base_env["TARGET"] = triple
        p0 = common.sh([common.VDRIVER, "cargo-cb", h], env=base_env)
        common.guard(p0.returncode == 0, "vdriver cargo-cb failed: " + p0.stderr.decode()[-300:])
        out0 = p0.stdout.decode()
        body0 = out0.split("=====BINDINGS=====")[1]
        changed_files = re.findall(r"^cargo:rerun-if-changed=(.*)$", out0, re.M)
        ck.count()
        exp = {os.path.realpath(h), os.path.realpath(os.path.join(wd, "envdep.h"))}
        got = [os.path.realpath(x) for x in changed_files]
        if set(got) != exp or len(got) != len(set(got)):
            ck.violation(f"cargo rerun-if-changed TARGET={target_set}", {"case": "env", "why": f"expected one line per file {sorted(exp)}, got {got}"})
        for v in cands:
            env = dict(base_env)
            env[v] = "-DWIDE=1"
            p = common.sh([common.VDRIVER, "cargo-cb", h], env=env)
            out = p.stdout.decode()
            ck.count()
            if p.returncode != 0:
                continue
            body = out.split("=====BINDINGS=====")[1]
            influenced = body != body0
            lines = re.findall(r"^cargo:rerun-if-env-changed=(.*)$", out, re.M)
            ck.nontriv(f"env {v} TARGET={target_set} influenced={influenced}")
            if influenced and lines.count(v) != 1:
                ck.violation(f"env var={v} TARGET={target_set}", {"case": "env", "why": f"{v} changes the bindings but is reported {lines.count(v)} times through rerun-if-env-changed (lines: {lines})"})
            if len(lines) != len(set(lines)):
                ck.violation(f"env duplicate lines var={v} TARGET={target_set}", {"case": "env", "why": f"duplicate rerun-if-env-changed lines: {lines}"})
    # the notifications belong to EACH generation: a later generation in the same process (a build script that generates several
    # modules), with callbacks of its own, is told about every variable and every file again
    env = dict(common.ENV, BINDGEN_EXTRA_CLANG_ARGS="-DWIDE=1", TARGET=triple)
    for first_cb in (False, True):
        for thr in (False, True):
            job = {"id": f"h{int(first_cb)}{int(thr)}", "mode": "history", "fresh": True, "thread_per_generation": thr, "timeout": 60,
                   "jobs": [dict({"args": [h]}, **({"callbacks": {"log": True}} if first_cb else {})), {"args": [h], "callbacks": {"log": True}}, {"args": [h], "callbacks": {"log": True}}]}
            r = common.run_jobs([job], wd, timeout=60, env=env)[job["id"]]
            ck.count()
            ck.nontriv(("env-history", first_cb, thr))
            if r["status"] != "ok":
                ck.violation(f"env history first-callbacks={first_cb} threads={thr} {r['status']}", {"case": "env", "why": str(r)[:200]})
                continue
            for k, o in enumerate(r["outs"][1:], start=1):
                log = o.get("cb_log") or []
                envs = [l.split(" ", 1)[1] for l in log if l.startswith("read_env_var ")]
                files = [l for l in log if l.startswith(("header_file ", "include_file "))]
                if "BINDGEN_EXTRA_CLANG_ARGS" not in envs or len(files) < 2 or "counter_t = ::std::os::raw::c_longlong" not in (o.get("text") or ""):
                    ck.violation(f"env history first-callbacks={first_cb} threads={thr} generation={k}", {"case": "env",
                                 "why": f"generation #{k} depends on BINDGEN_EXTRA_CLANG_ARGS (counter_t is long long: {'counter_t = ::std::os::raw::c_longlong' in (o.get('text') or '')}) "
                                        f"but its callbacks were told about env vars {envs} and files {files}"})


def replay(ck, case, detail):
    n0 = len(ck.violations)
    if detail.get("case") == "env":
        env_checks(ck)
    else:
        run(ck, only=detail["case"])
    return not any(c == case for c, _ in ck.violations[n0:])
