"""C11 - output is a pure function of inputs across processes, repeats and threads.

 (a) histories: ALL sequences of length <= 2 (quick) / 3 (thorough) over a job alphabet chosen to touch every
     piece of process-wide state, each history in a fresh process; every output must equal the job's output
     in a fresh process of its own (bindings, depfile, wrapper source, callback notification sequence);
 (b) repeats: every repository header: builder.clone().generate() twice in one process;
 (c) thread interleavings (model checking): hook H3 gates at the phase boundaries of a generation; the
     harness scheduler lets exactly one thread run from gate to gate and EVERY interleaving of the segments
     is executed (fresh process per schedule, so that first-use initialisation is part of what races);
 (d) processes: the production CLI under the product {ASLR on, off} x {environment padding} x {cwd} x repeats;
 (f) free-running threads (sampling, labelled as such).
"""
import itertools
import os

from . import common
from .common import Check

LEVEL = "model_checking"

H_C = "struct S { int a; char b; long c; unsigned long d; };\nint f(struct S *s, unsigned u, short h);\nextern long gv;\n#define M 7\n"
H_TPL = ("template <typename T> struct Box { T t; };\ntemplate <typename> struct Anon { int x; };\n"
         "struct U { Box<int> b; Anon<char> a; };\nnamespace n { struct Q { Box<U> q; }; }\nint ov(int); int ov(char); int ov(long);\n")
H_BF1 = "struct B1 { unsigned char a:3; unsigned char b:5; unsigned char c:2; };\n"
H_BF2 = "struct Reg { unsigned mode:3; unsigned count:10; unsigned addr:16; };\nstruct R2 { unsigned long long lo:40; unsigned hi:9; };\n"
H_STATIC = ("static inline int sq(int x) { return x * x; }\nstatic int tw(int x) { return 2 * x; }\n#include \"c11_dep.h\"\n"
            "#define FALLBACK (M_BASE + 1)\n#define M_BASE 41\n"
            # what the fallback evaluator is asked may mention the file it is evaluated in: the scratch file's name is not an input
            "#define FILE_LEN ((int)sizeof(__FILE__))\n#define FILE_TAIL ((int)__FILE__[sizeof(__FILE__) - 4])\n")
H_ABI = "void get_a(void); void get_b(int); void set_a(int); void other(void); int getset(void);\n"
H_REFS = "struct R { int &r; const double &d; char c; R(int &a, const double &b); };\nstruct HR { R *p; R &q; int z; };\nint &pick(int &a, int &b);\n"
H_ENUM = "enum E { A, B = 5 }; typedef enum E E_t; struct WE { enum E e; int arr[40]; float f; };\nunion UN { int i; float f; };\n"


def alphabet(wd):
    os.makedirs(wd, exist_ok=True)
    files = {"c11_c.h": H_C, "c11_tpl.hpp": H_TPL, "c11_bf1.h": H_BF1, "c11_bf2.h": H_BF2, "c11_static.h": H_STATIC,
             "c11_dep.h": "#pragma once\ntypedef int dep_t;\n", "c11_abi.h": H_ABI, "c11_enum.h": H_ENUM, "c11_refs.hpp": H_REFS,
             "c11_stdint.h": "#include <stdint.h>\nstruct SI { uint8_t a; int_fast16_t f; uintptr_t p; };\nint32_t si_fn(uint64_t v);\n"}
    for n, t in files.items():
        with open(os.path.join(wd, n), "w") as f:
            f.write(t)
    p = lambda n: os.path.join(wd, n)
    J = [
        {"name": "c-default", "args": [p("c11_c.h")]},
        {"name": "tpl-cpp", "args": [p("c11_tpl.hpp"), "--enable-cxx-namespaces"]},
        {"name": "c-use-core", "args": [p("c11_c.h"), "--use-core", "--rust-target", "1.70"]},
        {"name": "bitfields-uchar", "args": [p("c11_bf1.h")]},
        {"name": "bitfields-uint", "args": [p("c11_bf2.h")]},
        {"name": "static-wrap-depfile", "args": [p("c11_static.h"), "--wrap-static-fns", "--wrap-static-fns-path", p("wrap_@SLOT@"),
                                                 "--depfile", p("dep_@SLOT@.d"), "-o", p("out.rs"), "--clang-macro-fallback",
                                                 "--clang-macro-fallback-build-dir", wd, "--experimental"],
         "side_files": [p("wrap_@SLOT@.c"), p("dep_@SLOT@.d")]},
        {"name": "abi-overlap", "args": [p("c11_abi.h"), "--override-abi", "get_.*=system", "--override-abi", ".*_a=win64",
                                         "--override-abi", "get.*=C-unwind", "--override-abi", ".*=aapcs", "--override-abi", "[a-z_]+=stdcall", "--override-abi", ".+=fastcall"]},
        {"name": "enum-derives", "args": [p("c11_enum.h"), "--with-derive-default", "--with-derive-hash", "--with-derive-eq",
                                          "--default-enum-style", "rust", "--impl-debug"]},
    ]
    J.append({"name": "refs-x86_64", "args": [p("c11_refs.hpp"), "--", "-std=c++14"]})
    J.append({"name": "refs-i686", "args": [p("c11_refs.hpp"), "--", "-std=c++14", "--target=i686-unknown-linux-gnu"]})
    # what a generation may take from the system (include paths found through the clang executable) depends on ITS clang
    # arguments: the same header is accepted by default and rejected without the standard include directories
    J.append({"name": "stdint-default", "args": [p("c11_stdint.h")]})
    J.append({"name": "stdint-nostdinc", "args": [p("c11_stdint.h"), "--", "-nostdinc"], "expect_err": True})
    # collision twins: jobs that re-use the NAMES (records, functions, bit-field unit sizes, wrapper symbols, file paths) of an
    # earlier job with a different definition or under a different option - anything memoised by name, USR, size or path
    # across generations in one process shows up in a history that runs both
    twins = {
        "c11_c_twin.h": "struct S { char a; };\nstruct Holder { char pre; struct S s; int after; };\nint f(struct S s);\nextern char gv;\n#define M 300\n",
        "c11_bf2_twin.h": "struct Reg { unsigned long long mode:33; unsigned count:2; };\nstruct R2 { unsigned char lo:4; unsigned char hi:4; };\n",
        "c11_static_twin.h": "static inline long sq(long x, long y) { return x * y; }\n",
        "c11_static_big.h": "".join(f"static inline int big_{k}(int x) {{ return x + {k}; }}\n" for k in range(12)),
        "c11_wasm.h": "int w_f(int); extern int w_v; long w_g(void); extern long w_u; void w_h(void) __attribute__((noreturn));\n",
    }
    for n, t in twins.items():
        with open(os.path.join(wd, n), "w") as f:
            f.write(t)
    J.append({"name": "c-twin-same-names", "args": [p("c11_c_twin.h")]})
    J.append({"name": "bitfields-uchar-namespaces", "args": [p("c11_bf1.h"), "--enable-cxx-namespaces"]})
    J.append({"name": "bitfields-twin-same-names", "args": [p("c11_bf2_twin.h")]})
    # three generations that write ONE wrapper path per history (@HIST@ is the same for every position of a history)
    for nm, hdr in (("static-shared-path", "c11_static.h"), ("static-shared-path-twin", "c11_static_twin.h"), ("static-shared-path-big", "c11_static_big.h")):
        J.append({"name": nm, "args": [p(hdr), "--wrap-static-fns", "--wrap-static-fns-path", p("wrapshared_@HIST@"), "--experimental"],
                  "side_files": [p("wrapshared_@HIST@.c")], "keep_side": True})
    J.append({"name": "merge-wasm-attrs", "args": [p("c11_wasm.h"), "--merge-extern-blocks", "--wasm-import-module-name", "env"]})
    # second group of twins (kept out of the full product of the quick tier, see histories()): state keyed by something that
    # stays the same while the answer changes (USR with another asm label, clang flags with another language), state that
    # survives a FAILED step (formatter), and iteration orders that depend on addresses
    more = {
        "c11_asm.h": "#ifdef API_V2\nint compute(int) __asm__(\"compute_v2\");\nextern int level __asm__(\"level_v2\");\n#else\nint compute(int);\nextern int level;\n#endif\n",
        "c11_sys.h": "#include <stdlib.h>\nstruct UsesSys { size_t n; div_t d; };\n",
        "c11_sys.hpp": "#include <cstdlib>\nstruct UsesSysCpp { std::size_t n; std::div_t d; };\n",
        "c11_replaces.h": ("struct Outer { struct { int a; } s1; union { int b; float c; } u1; struct { char d; } s2; enum { E_A, E_B } e1; };\n"
                           "/** <div rustbindgen replaces=\"Target\"></div> */\nstruct Replacement { int r; };\nstruct Target { long t; };\nstruct UsesTarget { struct Target x; };\n"),
    }
    for n, t in more.items():
        with open(os.path.join(wd, n), "w") as f:
            f.write(t)
    J.append({"name": "asm-label-v1", "args": [p("c11_asm.h")]})
    J.append({"name": "asm-label-v2", "args": [p("c11_asm.h"), "--", "-DAPI_V2"]})
    J.append({"name": "system-c", "args": [p("c11_sys.h"), "--allowlist-type", "UsesSys"]})
    J.append({"name": "system-cpp", "args": [p("c11_sys.hpp"), "--allowlist-type", "UsesSysCpp"]})
    J.append({"name": "rustfmt-missing", "args": [p("c11_c.h")], "ops": [["with_rustfmt", os.path.join(wd, "no-such-rustfmt")]]})
    J.append({"name": "replaces-anonymous", "args": [p("c11_replaces.h")]})
    for j in J:
        j["callbacks"] = {"log": True}
    return J


FIRST_GROUP = 19   # jobs whose full product is enumerated in every tier


def length2(nj, tier):
    """Histories of length 2: the full product in the thorough tier; in the quick tier the full product of the first group, the full
    product of the second group, and every second-group job before and after three first-group jobs."""
    if tier == "thorough":
        return list(itertools.product(range(nj), repeat=2))
    out = list(itertools.product(range(FIRST_GROUP), repeat=2)) + list(itertools.product(range(FIRST_GROUP, nj), repeat=2))
    for k in range(FIRST_GROUP, nj):
        for o in (0, 1, 5):
            out += [(o, k), (k, o)]
    return out


def slot(job, tag):
    """Give each concurrently running instance of a job its own side-file names. @SLOT@ is private to one generation,
    @HIST@ (the part of the tag after 'x') is shared by the generations of one history / schedule."""
    shared = mark("x" + tag.split("x", 1)[1]) if "x" in tag else mark(tag)
    tag = mark(tag)
    j = dict(job)
    j["args"] = [a.replace("@SLOT@", tag).replace("@HIST@", shared) for a in job["args"]]
    if "side_files" in job:
        j["side_files"] = [a.replace("@SLOT@", tag).replace("@HIST@", shared) for a in job["side_files"]]
    return j


def mark(tag):
    return f"zq{tag}qz"


def observe(out, tag):
    """Everything the property calls output, normalised for the slot name."""
    shared = mark("x" + tag.split("x", 1)[1]) if "x" in tag else mark(tag)
    tag = mark(tag)
    if out.get("status") != "ok":
        return ("status", out.get("status"), out.get("err"), out.get("panic"))
    norm = lambda v: v.replace(tag, "@").replace(shared, "@")
    side = tuple(sorted((norm(k), norm(v)) for k, v in (out.get("side") or {}).items()))
    cb = tuple(norm(x) if isinstance(x, str) else x for x in (out.get("cb_log") or []))
    return (norm(out["text"]), side, cb)


def new_check(tier):
    return Check("C11", tier, LEVEL,
                 "states = executions explored: every history (sequence of generations in one fresh process) of length <=2|3 over an "
                 "8-job alphabet, and every gate-level interleaving of 2 threads x k gates (fresh process each) and 3 threads x 2 gates; "
                 "transitions = gate-to-gate segments / generations executed; non-trivial = history or schedule in which a generation "
                 "runs after or between parts of another one")


def run(ck, only=None):
    wd = ck.wd
    J = alphabet(wd)
    names = [j["name"] for j in J]
    # reference: each job alone in a fresh process
    ref_jobs = [dict(slot(j, f"ref{k}"), id=f"ref|{j['name']}", mode="history", jobs=[slot(j, f"ref{k}")], fresh=True) for k, j in enumerate(J)]
    res = common.run_jobs(ref_jobs, wd, timeout=60)
    ref = {}
    for k, j in enumerate(J):
        r = res[f"ref|{j['name']}"]
        want = "err" if j.get("expect_err") else "ok"
        common.guard(r["status"] == "ok" and r["outs"][0].get("status") == want, f"C11 reference generation of {j['name']} is not {want}: {str(r)[:300]}")
        ref[j["name"]] = observe(r["outs"][0], f"ref{k}")
    common.guard(len(set(ref.values())) == len(J), "C11 vacuity: two alphabet jobs have identical outputs")
    states = transitions = 0

    # (a) histories
    if not only or only.get("kind") == "history":
        maxlen = 3 if ck.tier == "thorough" else 2
        hist = [(i,) for i in range(len(J))] + length2(len(J), ck.tier)
        if maxlen >= 3:
            hist += list(itertools.product(range(FIRST_GROUP), repeat=3))
        if only:
            hist = [tuple(only["seq"])]
        # every history twice: all generations on one thread, and each generation on a thread of its own (length 2 only)
        runs = [(hn, h, False) for hn, h in enumerate(hist)] + [(len(hist) + hn, h, True) for hn, h in enumerate(hist) if len(h) == 2]
        if only:
            runs = [(0, tuple(only["seq"]), bool(only.get("threads")))]
        jobs = []
        for hn, h, thr in runs:
            jj = [slot(J[i], f"h{k}x{hn}") for k, i in enumerate(h)]
            jobs.append({"id": f"hist|{int(thr)}|" + ",".join(map(str, h)), "mode": "history", "jobs": jj, "fresh": True, "timeout": 120, "thread_per_generation": thr})
        res = common.run_jobs(jobs, wd, timeout=120)
        for hn, h, thr in runs:
            r = res[f"hist|{int(thr)}|" + ",".join(map(str, h))]
            ck.count()
            states += 1
            transitions += len(h)
            case = f"history seq={[names[i] for i in h]}" + (" thread-per-generation" if thr else "")
            if r["status"] != "ok":
                ck.violation(case + " " + r["status"], {"kind": "history", "seq": list(h), "threads": thr, "why": f"process died: {r}"[:300]})
                continue
            if len(h) > 1:
                ck.nontriv(("h", h, thr))
            for k, i in enumerate(h):
                if observe(r["outs"][k], f"h{k}x{hn}") != ref[names[i]]:
                    ck.violation(case + f" position={k}", {"kind": "history", "seq": list(h), "threads": thr,
                                 "why": f"generation #{k} ({names[i]}) differs from its fresh-process output after {[names[x] for x in h[:k]]}: " + first_diff(observe(r['outs'][k], f'h{k}x{hn}'), ref[names[i]])})
                    break
        ck.sample({"history": [names[i] for i in hist[min(len(hist) - 1, 20)]]})
        ck.extra["histories"] = len(runs)

    # (a') the same histories (length <= 2) in an environment where the variables bindgen consults are set
    if not only or only.get("kind") == "history-env":
        env = dict(common.ENV)
        env["BINDGEN_EXTRA_CLANG_ARGS"] = "-DC11_EXTRA=1"
        env["TARGET"] = "x86_64-unknown-linux-gnu"
        refj = [dict(id=f"eref|{j['name']}", mode="history", jobs=[slot(j, f"eref{k}")], fresh=True) for k, j in enumerate(J)]
        eres = common.run_jobs(refj, wd, timeout=60, env=env)
        eref = {j["name"]: observe(eres[f"eref|{j['name']}"]["outs"][0], f"eref{k}") for k, j in enumerate(J)}
        hist2 = length2(len(J), ck.tier)
        if only:
            hist2 = [tuple(only["seq"])]
        jobs = [{"id": "ehist|" + ",".join(map(str, h)), "mode": "history", "jobs": [slot(J[i], f"e{k}x{hn}") for k, i in enumerate(h)], "fresh": True, "timeout": 120}
                for hn, h in enumerate(hist2)]
        eres = common.run_jobs(jobs, wd, timeout=120, env=env)
        for hn, h in enumerate(hist2):
            r = eres["ehist|" + ",".join(map(str, h))]
            ck.count()
            states += 1
            transitions += len(h)
            ck.nontriv(("eh", h))
            if r["status"] != "ok":
                ck.violation(f"history-env seq={[names[i] for i in h]} {r['status']}", {"kind": "history-env", "seq": list(h), "why": str(r)[:200]})
                continue
            for k, i in enumerate(h):
                if observe(r["outs"][k], f"e{k}x{hn}") != eref[names[i]]:
                    ck.violation(f"history-env seq={[names[i] for i in h]} position={k}", {"kind": "history-env", "seq": list(h),
                                 "why": f"with BINDGEN_EXTRA_CLANG_ARGS and TARGET set, generation #{k} ({names[i]}) differs from its fresh-process output: "
                                        + first_diff(observe(r["outs"][k], f"e{k}x{hn}"), eref[names[i]])})
                    break
        ck.extra["histories_with_env"] = len(hist2)

    # (c) gate-level interleavings
    if not only or only.get("kind") == "schedule":
        GATES_ALL = ["libclang_loaded", "pre_parse", "parsed", "gen_enter", "allowlisted", "analysed", "codegen_done", "pre_format"]
        plans = []  # (job indices, gates)
        if ck.tier == "thorough":
            pairs = list(itertools.combinations_with_replacement(range(12), 2)) + [(0, 12), (12, 0), (3, 13), (4, 14), (15, 16), (16, 17), (17, 15), (18, 18)]
            g2 = ["libclang_loaded", "parsed", "allowlisted", "analysed", "codegen_done"]  # 6 segments each: C(12,6) = 924
            plans += [(p, g2) for p in pairs]
            plans += [(t, ["parsed", "analysed"]) for t in [(0, 1, 2), (3, 4, 4), (2, 0, 2), (5, 5, 6), (1, 7, 1), (6, 6, 6)]]  # 3 threads x 3 segments: 1680
        else:
            pairs = [(0, 2), (3, 4), (2, 2), (1, 1), (5, 5), (6, 6), (1, 0), (4, 7), (8, 9), (9, 8), (0, 12), (3, 13), (4, 14), (18, 18)]
            if ck.seed:
                pairs = list(dict.fromkeys(pairs[ck.seed % 2::2] + [(0, 2), (3, 4), (8, 9)]))
            g2 = ["libclang_loaded", "parsed", "analysed"]  # 4 segments each: C(8,4) = 70
            plans += [(p, g2) for p in pairs]
            plans += [((0, 2, 0), ["analysed"])]  # 3 threads x 2 segments: 90
            ck.cap("quick tier: 8 job pairs x 3 gates (70 schedules each) + one triple (90); thorough: all 36 pairs x 5 gates (924 each) + 6 triples (1680 each)")
        jobs = []
        slot_of = {}
        for tids, gates in plans:
            segs = len(gates) + 1
            base = []
            for t in range(len(tids)):
                base += [t] * segs
            scheds = sorted(set(itertools.permutations(base))) if len(base) <= 8 else None
            if scheds is None:
                scheds = list(multiset_perms(base))
            if only:
                scheds = [tuple(only["schedule"])] if list(tids) == only["jobs"] and gates == only["gates"] else []
            for s in scheds:
                sn = len(jobs)
                jj = [slot(J[i], f"t{k}x{sn}") for k, i in enumerate(tids)]
                jid = "sch|" + ",".join(map(str, tids)) + "|" + ",".join(gates) + "|" + "".join(map(str, s))
                slot_of[jid] = sn
                jobs.append({"id": jid, "mode": "interleave", "jobs": jj, "gates": gates, "schedule": list(s), "fresh": True, "timeout": 120})
        res = common.run_jobs(jobs, wd, timeout=120)
        traces = set()
        for jid, r in res.items():
            _, tids_s, gates_s, sched = jid.split("|")
            tids = [int(x) for x in tids_s.split(",")]
            ck.count()
            states += 1
            transitions += len(sched)
            det = {"kind": "schedule", "jobs": tids, "gates": gates_s.split(","), "schedule": [int(c) for c in sched]}
            case = f"schedule jobs={[names[i] for i in tids]} gates={gates_s} order={sched}"
            if r["status"] != "ok":
                ck.violation(case + " " + r["status"], dict(det, why=f"process died / hung: {str(r)[:300]}"))
                continue
            traces.add((tids_s, gates_s, tuple(r.get("trace") or [])))
            pk = next((k for k, o in enumerate(r.get("outs") or []) if isinstance(o, dict) and o.get("status") == "panic"), None)
            if pk is not None:
                ck.violation(case + f" thread={pk} panic", dict(det, why=f"thread {pk} ({names[tids[pk]]}) panicked: {str(r['outs'][pk].get('panic'))[:200]}"))
                continue
            if r.get("schedule_error"):
                raise common.Machinery(f"C11 scheduler: {r['schedule_error']} in {jid} (trace {r.get('trace')})")
            traces.add((tids_s, gates_s, tuple(r["trace"])))
            if len(set(sched)) > 1:
                ck.nontriv(jid)
            sn = slot_of[jid]
            for k, i in enumerate(tids):
                if observe(r["outs"][k], f"t{k}x{sn}") != ref[names[i]]:
                    ck.violation(case + f" thread={k}", dict(det, why=f"thread {k} ({names[i]}) differs from its fresh-process output: " + first_diff(observe(r['outs'][k], f't{k}x{sn}'), ref[names[i]])))
                    break
        ck.extra["schedules"] = len(jobs)
        ck.extra["distinct_gate_traces"] = len(traces)
        if jobs:
            ck.sample({"schedule": jobs[len(jobs) // 2]["id"]})
            sched_viol = any(d.get("kind") == "schedule" for _, d in ck.violations)
            common.guard(len(traces) == len(jobs) or only or sched_viol, f"C11 vacuity: {len(jobs)} schedules produced only {len(traces)} distinct gate traces")

    ck.extra["states"] = states
    ck.extra["transitions"] = transitions
    ck.extra["traces_validated_against_impl"] = states
    if only and only.get("kind") not in (None, "repeat", "process", "history-env"):
        return
    # (b) repeats on repository headers
    if not only or only.get("kind") == "repeat":
        hs = common.repo_headers()
        if ck.tier == "quick":
            hs = [h for k, h in enumerate(hs) if (k + ck.seed) % 4 == 1]
        jobs = []
        for h in hs:
            if only and only.get("header") != os.path.basename(h):
                continue
            args, cb = common.repo_header_args(h)
            jobs.append({"id": "rep|" + os.path.basename(h), "mode": "history", "jobs": [{"args": args, "clone_twice": True}]})
        res = common.run_jobs(jobs, wd, timeout=90)
        for jid, r in res.items():
            ck.count()
            if r["status"] != "ok":
                continue
            o = r["outs"][0]
            if o.get("status") == "ok" and o.get("second_equal") is False:
                ck.violation(f"repeat header={jid[4:]}", {"kind": "repeat", "header": jid[4:], "why": "builder.clone().generate() twice in one process gave different bindings"})
            ck.nontriv(jid)
    # (d) separate processes (production CLI): ASLR x env padding x cwd x repeats  -- OS randomness is sampled, not enumerated
    if not only or only.get("kind") == "process":
        process_matrix(ck, J, only)
    # (f) free-running threads: sampling pass
    if not only:
        jobs = []
        for nthreads in (2, 4, 8, 16):
            jj = [slot(J[k % len(J)], f"f{k}n{nthreads}") for k in range(nthreads)]
            jobs.append({"id": f"free|{nthreads}", "mode": "freerun", "jobs": jj, "rounds": 3 if ck.tier == "quick" else 12, "fresh": True, "timeout": 300})
        res = common.run_jobs(jobs, wd, timeout=300, threads=2)
        for jid, r in res.items():
            ck.count()
            if r["status"] != "ok":
                ck.violation(f"free-running {jid}", {"kind": "free", "why": f"process died: {str(r)[:200]}"})
                continue
            nthreads = int(jid.split("|")[1])
            for k, outs in enumerate(r["outs"]):
                for o in outs:
                    if observe(o, f"f{k}n{nthreads}") != ref[names[k % len(J)]]:
                        ck.violation(f"free-running {jid} thread={k}", {"kind": "free", "why": "output differs from the fresh-process reference under free-running threads (sampled schedule)"})
                        break
        ck.assume("free-running thread pass and ASLR / RandomState seeds are sampling (the OS chooses them); they back the exhaustive "
                  "history and gate-schedule enumerations and never decide the property alone")
    ck.assume("gate scheduler serialises threads: races inside one gate-to-gate segment are not explored")


def multiset_perms(items):
    """Distinct permutations of a multiset (lexicographic)."""
    items = sorted(items)
    n = len(items)
    while True:
        yield tuple(items)
        i = n - 2
        while i >= 0 and items[i] >= items[i + 1]:
            i -= 1
        if i < 0:
            return
        j = n - 1
        while items[j] <= items[i]:
            j -= 1
        items[i], items[j] = items[j], items[i]
        items[i + 1:] = reversed(items[i + 1:])


def first_diff(a, b):
    if a[0] == "status" or b[0] == "status":
        return f"{a[:3]} vs {b[:3]}"[:300]
    for idx, what in enumerate(("bindings", "side files", "callback sequence")):
        if a[idx] != b[idx]:
            if idx == 0:
                la, lb = a[0].splitlines(), b[0].splitlines()
                for x, y in zip(la, lb):
                    if x != y:
                        return f"{what}: got `{x.strip()[:120]}` expected `{y.strip()[:120]}`"
                return f"{what}: length {len(la)} vs {len(lb)} lines"
            return f"{what} differ: {str(a[idx])[:150]} vs {str(b[idx])[:150]}"
    return "equal?"


def process_matrix(ck, J, only):
    wd = os.path.join(ck.wd, "proc")
    os.makedirs(wd, exist_ok=True)
    inputs = []
    for j in J:
        a = [x for x in slot(j, "p")["args"]]
        # -o would make every process overwrite one file: print to stdout instead
        if "-o" in a:
            k = a.index("-o")
            a = a[:k] + a[k + 2:]
        if "--depfile" in a:
            k = a.index("--depfile")
            a = a[:k] + a[k + 2:]
        inputs.append((j["name"], a))
    hs = common.repo_headers()
    hs = [h for k, h in enumerate(hs) if (k + ck.seed) % (10 if ck.tier == "quick" else 2) == 0]
    for h in hs:
        args, cb = common.repo_header_args(h)
        if cb:
            continue
        inputs.append((os.path.basename(h), args))
    if only:
        inputs = [x for x in inputs if x[0] == only["name"]]
    sub = os.path.join(wd, "sub")
    os.makedirs(sub, exist_ok=True)
    repo_cwd = os.path.dirname(os.path.dirname(common.HEADERS))  # /repo/bindgen-tests: flag lines use paths relative to it
    variants = []
    for aslr in (True, False):
        for pad in (0, 4096, 65536):
            for cwd in (0, 1):
                variants.append((aslr, pad, cwd))
    reps = 2 if ck.tier == "quick" else 3
    if ck.tier == "quick":
        variants = [variants[0], variants[5], variants[6], variants[11]]
    jnames = {j["name"] for j in J}
    # the working directory is an input of its own (rustfmt looks for its configuration there, flag lines of repository headers
    # use relative paths), so it is varied only for the alphabet jobs, between two directories without a rustfmt.toml above them
    work = [(n, a, (v[0], v[1], ((wd, sub)[v[2]] if n in jnames else repo_cwd)), r) for (n, a) in inputs for v in variants for r in range(reps)]

    def run_one(t):
        n, a, (aslr, pad, cwd), r = t
        env = dict(common.ENV)
        if pad:
            env["C11_PADDING"] = "x" * pad
        cmd = ([] if aslr else ["setarch", "-R"]) + [common.CLI] + a
        p = common.sh(cmd, cwd=cwd, env=env, timeout=120)
        return n, (aslr, pad, cwd, r), p.returncode, common.sha(p.stdout)

    seen = {}
    for n, v, rc, h in common.pmap(run_one, work):
        ck.count()
        key = (rc, h)
        if n not in seen:
            seen[n] = (key, v)
        elif seen[n][0] != key:
            ck.violation(f"process input={n}", {"kind": "process", "name": n, "why": f"CLI output differs between process environments {seen[n][1]} and {v} (exit/sha {seen[n][0]} vs {key})"})
    ck.extra["cli_processes"] = len(work)


def replay(ck, case, detail):
    n0 = len(ck.violations)
    if detail.get("kind") == "free":
        return True  # sampled schedule: cannot be replayed deterministically
    run(ck, only=detail)
    return not any(c == case for c, _ in ck.violations[n0:])
