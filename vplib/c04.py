"""C04 - functions and globals bind the right symbol with a call-compatible signature.

Explored: every signature (result, p1..pn) with n <= 2 over an alphabet of 16 scalar kinds, 23 by-value struct
shapes (sizes 1..64, int-only / float-only / mixed: both sides of every SysV x86-64 classification boundary),
pointers (mutable, const, double), array parameters, a callback parameter, variadic tails; special names
(Rust keywords, `$`); globals of every kind (const and non-const); x option rows {default, merge-extern-blocks,
sort-semantically, c-naming, renaming callback, namespaces}. Oracle: clang compiles C definitions that fold every
argument into an FNV-1a hash (stored in a global and used to derive the result); a rustc-built caller links
against that object, calls through the bindings and compares with the same fold computed in Rust.
"""
import itertools
import os
import re

from . import common, gen_fn, probes
from .common import Check
from .gen_c import RUST_KEYWORDS

LEVEL = "exploration"
PER_LIB = 60


def alphabet():
    return gen_fn.scalar_types() + gen_fn.struct_types() + gen_fn.pointer_types()


def functions(tier, seed):
    A = alphabet()
    scal = [t for t in A if t.mode == "value"]
    structs = [t for t in A if t.mode == "struct"]
    ptrs = [t for t in A if t.mode not in ("value", "struct")]
    fns = []

    def add(ret, params, variadic=False, name=None, abi=""):
        fns.append(gen_fn.Fn(name or f"K{len(fns) + 1}", ret, params, variadic, abi))

    int_t = next(t for t in scal if t.key == "int")
    # every type as result (pointer results only for plain pointers), every type as the single parameter
    for t in A:
        if t.mode in ("value", "struct") or t.key in ("p_int", "cp_double", "p_s16ld"):
            add(t, [int_t])
        add(int_t, [t])
        add(None, [t])
    # all ordered pairs of parameters over a reduced alphabet (full alphabet in the thorough tier)
    red = [t for t in A if t.key in ("char", "uchar", "short", "int", "ulong", "float", "double", "bool", "enum", "s3c", "s8if", "s9", "s16ld", "s16dd",
                                     "s16fi", "s17", "s24", "s33", "smix", "p_int", "cp_char", "arr_int", "cb", "cp_s16ld")]
    pool = A if tier == "thorough" else red
    for a, b in itertools.product(pool, repeat=2):
        add(int_t, [a, b])
    # struct results with struct parameters
    for r in structs:
        for p in (structs if tier == "thorough" else structs[::3]):
            add(r, [p])
    # three parameters over a small alphabet; variadic tails; register exhaustion (7+ integer / 9+ float arguments)
    small = [t for t in A if t.key in ("int", "double", "s8if", "s16ld", "s24", "cp_int", "uchar")]
    for combo in itertools.product(small, repeat=3):
        add(next(t for t in A if t.key == "llong"), list(combo))
    for p in (int_t, next(t for t in A if t.key == "double"), next(t for t in A if t.key == "s16ld"), next(t for t in A if t.key == "cp_char")):
        add(int_t, [p, int_t], variadic=True)
    add(int_t, [int_t] * 8)
    add(next(t for t in A if t.key == "double"), [next(t for t in A if t.key == "double")] * 10)
    add(next(t for t in A if t.key == "s16ld"), [int_t] * 6 + [next(t for t in A if t.key == "s16ld")] + [next(t for t in A if t.key == "float")] * 9)
    # non-default calling convention (Win64 ABI on this target), interleaved with default-ABI functions
    for a, b in itertools.product([t for t in A if t.key in ("int", "double", "s16ld", "s8if", "cp_int", "uchar", "s24")], repeat=2):
        add(int_t, [a, b], abi="ms_abi")
        if a.key == "int":
            add(int_t, [b, a])
    # special names
    # keywords (mangled to `kw_`), names that collide with a mangled keyword declared before / after it, `$`
    for nm in ("try_", "type", "fn", "match", "match_", "type_", "self_fn$x", "a$b", "Self", "crate_", "async", "dyn", "gen", "try", "box", "box_", "box_1"):
        add(int_t, [next(t for t in A if t.key == "s8if"), int_t], name=nm)
    if tier == "quick":
        first = 3 * len(A)   # the "every type as result / single parameter" block is always complete
        keep = [f for k, f in enumerate(fns) if k < first or (k + seed) % 5 == 0 or not f.name.startswith("K") or f.abi]
        fns = keep
    return fns


def supports(fns):
    sup = []
    for f in fns:
        for t in ([f.ret] if f.ret else []) + f.params:
            if t.support and t.support not in sup:
                sup.append(t.support)
    # pointer-to-struct types need the struct
    if "struct s16ld { long long a; double b; };" not in sup:
        sup.append("struct s16ld { long long a; double b; };")
    return sup


GLOBALS = [("g_i", "int", "-77", "sint"), ("g_u", "unsigned", "4000000000u", "uint"), ("g_ll", "long long", "-5000000000LL", "sint"), ("g_d", "double", "2.5", "float"),
           ("g_c", "char", "'x'", "sint"), ("g_b", "_Bool", "1", "bool"), ("g_us", "unsigned short", "65535", "uint"), ("g_f", "float", "-1.5f", "float")]


# functions returning pointers to functions, written with in-place declarators (no typedef), own arity N vs callee arity M
FNRET_H = """
long (*fr_1_2(double scale))(int a, char b);
long (*fr_2_1(int x, int y))(double d);
long (*fr_0_2(void))(int a, char b);
long (*fr_2_3(int x, char y))(int a, double b, char c);
long (*fr_3_1(int x, int y, int z))(char c);
long (*fr_2_2(int x, char y))(int a, char b);
long (__attribute__((ms_abi)) *fr_ms_cb(int which))(long a, long b);
__attribute__((ms_abi)) long (*fr_ms_acc(int which))(long a, long b);
__attribute__((ms_abi)) long (__attribute__((ms_abi)) *fr_ms_both(int which))(long a, long b);
"""
FNRET_C = """
static long m2(int a, char b) { return a * 1000L + b; }
static long m1(double d) { return (long)(d * 4); }
static long m3(int a, double b, char c) { return a * 100L + (long)(b * 2) + c; }
static long m1c(char c) { return c + 7L; }
long (*fr_1_2(double scale))(int a, char b) { g_hash = (unsigned long long)scale; return m2; }
long (*fr_2_1(int x, int y))(double d) { g_hash = (unsigned long long)(x * 10 + y); return m1; }
long (*fr_0_2(void))(int a, char b) { g_hash = 77; return m2; }
long (*fr_2_3(int x, char y))(int a, double b, char c) { g_hash = (unsigned long long)(x + y); return m3; }
long (*fr_3_1(int x, int y, int z))(char c) { g_hash = (unsigned long long)(x + y + z); return m1c; }
long (*fr_2_2(int x, char y))(int a, char b) { g_hash = (unsigned long long)(x - y); return m2; }
static long __attribute__((ms_abi)) ms_sub(long a, long b) { return a * 3 - b; }
static long sysv_sub(long a, long b) { return a * 5 - b; }
long (__attribute__((ms_abi)) *fr_ms_cb(int which))(long a, long b) { g_hash = (unsigned long long)which; return ms_sub; }
__attribute__((ms_abi)) long (*fr_ms_acc(int which))(long a, long b) { g_hash = (unsigned long long)(which + 1); return sysv_sub; }
__attribute__((ms_abi)) long (__attribute__((ms_abi)) *fr_ms_both(int which))(long a, long b) { g_hash = (unsigned long long)(which + 2); return ms_sub; }
"""
FNRET_RS = [
    ("fr_1_2", "(3.0f64)", "(5, 6 as _)", "5 * 1000 + 6", "3"),
    ("fr_2_1", "(4, 5)", "(2.5f64)", "10", "45"),
    ("fr_0_2", "()", "(7, 8 as _)", "7 * 1000 + 8", "77"),
    ("fr_2_3", "(1, 2 as _)", "(3, 1.5f64, 4 as _)", "3 * 100 + 3 + 4", "3"),
    ("fr_3_1", "(1, 2, 3)", "(9 as _)", "16", "6"),
    ("fr_2_2", "(9, 4 as _)", "(1, 2 as _)", "1002", "5"),
    # accessor and returned callback with DIFFERENT calling conventions (in-place declarator, no typedef)
    ("fr_ms_cb", "(9)", "(7, 2)", "7 * 3 - 2", "9"),
    ("fr_ms_acc", "(4)", "(7, 2)", "7 * 5 - 2", "5"),
    ("fr_ms_both", "(1)", "(7, 2)", "7 * 3 - 2", "3"),
]


def make_lib(fns, wd, name):
    sup = supports(fns)
    hdr = [gen_fn.PRELUDE_C] + sup + ["extern unsigned long long g_hash;"]
    src = [f'#include "{name}.h"', gen_fn.C_HELPERS]
    for f in fns:
        hdr.append(f.proto() + ";")
        src.append(f.c_def())
    for g, t, v, _ in GLOBALS:
        hdr.append(f"extern {t} {g}; extern const {t} c{g}; {t} get_{g}(void);")
        src.append(f"{t} {g} = {v}; const {t} c{g} = {v}; {t} get_{g}(void) {{ return {g}; }}")
    hdr.append(FNRET_H)
    src.append(FNRET_C)
    hdr.append("struct s16ld; extern struct s16ld g_s; extern int g_arr[4]; extern const char *g_str;")
    src.append("struct s16ld g_s = { -9, 4.5 }; int g_arr[4] = { 1, -2, 3, -4 }; const char *g_str = \"hey\";")
    open(os.path.join(wd, f"{name}.h"), "w").write("\n".join(hdr) + "\n")
    open(os.path.join(wd, f"{name}.c"), "w").write("\n".join(src) + "\n")


def rust_name_index(inv):
    """C symbol -> (Rust ident, signature, module path)."""
    out = {}

    def walk(items, path):
        for it in items:
            if it["kind"] == "mod":
                walk(it["items"], path + [it["name"]])
            elif it["kind"] == "foreign_mod":
                for fi in it["items"]:
                    sym = (fi.get("link_name") or fi["name"]).lstrip("\x01")
                    out[sym] = (fi["name"], fi, "::".join(path), it.get("abi"))
    walk(inv["items"], [])
    return out


RUST_SCALAR = {"char": "::std::os::raw::c_char", "schar": "::std::os::raw::c_schar", "uchar": "::std::os::raw::c_uchar", "short": "::std::os::raw::c_short",
               "ushort": "::std::os::raw::c_ushort", "int": "::std::os::raw::c_int", "uint": "::std::os::raw::c_uint", "long": "::std::os::raw::c_long",
               "ulong": "::std::os::raw::c_ulong", "llong": "::std::os::raw::c_longlong", "ullong": "::std::os::raw::c_ulonglong", "float": "f32", "double": "f64",
               "bool": "bool", "enum": "@enum fe", "tdint": "@typedef td_int"}
# <stdint.h> / <stddef.h> names: the Rust type is decided by the WIDTH the host libc gives the name (a typed local of that width
# must be accepted by the binding's parameter); pointer-sized names are the pointer-sized Rust integers
for _n, (_s, _b) in gen_fn.STD_NAMES.items():
    RUST_SCALAR["sd_" + _n] = {"size_t": "usize", "uintptr_t": "usize", "ssize_t": "isize", "intptr_t": "isize", "ptrdiff_t": "isize"}.get(_n, f"{'i' if _s else 'u'}{_b}")
NAMING = {"mode": "plain"}


def tyname(cname):
    """Rust path of a C type name (`struct s16ld`, `enum fe`, `td_int`) under the naming mode of the current option row."""
    parts = cname.split()
    base = parts[-1]
    if NAMING["mode"] == "c-naming" and len(parts) == 2:
        base = f"{parts[0]}_{base}"
    if NAMING["mode"] == "rename":
        base = "rn_" + base
    return "b::" + base


def scalar_rust(kind):
    t = RUST_SCALAR[kind]
    if t.startswith("@enum"):
        return tyname("enum fe")
    if t.startswith("@typedef"):
        return tyname("td_int")
    return t


def value_expr(t, setk, prefix, lines):
    """Emit Rust statements that build argument `prefix` of type t for value set `setk`; return (call expr, [(leaf rust expr, kind)])."""
    leaves = []

    def lit(kind, j):
        vals = gen_fn.LEAF[kind][4]
        return vals[(setk + j) % len(vals)]

    def castlit(kind, j):
        v = lit(kind, j)
        return v if kind == "bool" else f"({v}) as _"

    if t.mode == "value":
        k = t.leaves[0][2]
        lines.append(f"let {prefix}: {scalar_rust(k)} = {castlit(k, 0)};")
        return prefix, [(prefix, k)]
    if t.mode in ("struct", "ptr", "cptr", "pptr") and (t.mode == "struct" or len(t.leaves) > 1 or t.key.startswith(("p_s", "cp_s"))):
        ty = tyname(t.ctype)
        lines.append(f"let mut {prefix}_v: {ty} = unsafe {{ std::mem::zeroed() }};")
        for j, (_, rs, k) in enumerate(t.leaves):
            lines.append(f"{prefix}_v{rs} = {castlit(k, j)};")
            leaves.append((f"{prefix}_v{rs}", k))
        if t.mode == "struct":
            return f"{prefix}_v", leaves
        return (f"&mut {prefix}_v as *mut _" if t.mode == "ptr" else f"&{prefix}_v as *const _"), leaves
    if t.mode in ("ptr", "cptr", "pptr"):
        k = t.leaves[0][2]
        lines.append(f"let mut {prefix}_v: {scalar_rust(k)} = {castlit(k, 0)};")
        if t.mode == "pptr":
            lines.append(f"let mut {prefix}_p = &mut {prefix}_v as *mut _;")
            return f"&mut {prefix}_p as *mut _", [(f"{prefix}_v", k)]
        return (f"&mut {prefix}_v as *mut _" if t.mode == "ptr" else f"&{prefix}_v as *const _"), [(f"{prefix}_v", k)]
    if t.mode in ("arr", "carr"):
        k = t.leaves[0][2]
        n = len(t.leaves)
        lines.append(f"let mut {prefix}_v: [{scalar_rust(k)}; {n}] = [{', '.join(castlit(k, j) for j in range(n))}];")
        return (f"{prefix}_v.as_mut_ptr()" if t.mode == "arr" else f"{prefix}_v.as_ptr()"), [(f"{prefix}_v[{j}]", k) for j in range(n)]
    if t.mode == "cb":
        lines.append(f"let {prefix}_r: i64 = 41 * 3 + 1;")
        return "Some(cb_impl)", [(f"{prefix}_r", "int")]
    raise ValueError(t.mode)


def rust_caller(fns, idx, bindings_path, prefix_path):
    out = [gen_fn.RUST_HELPERS.replace("@B@", bindings_path).replace("mod b {", "mod b0 {") + f"use b0{prefix_path} as b;\n", "fn main() {", "  let mut ok = 0u32;"]
    missing = []

    def gname(sym):
        return idx[sym][0] if sym in idx else sym

    for fi, f in enumerate(fns):
        ent = idx.get(f.name)
        tag = f"K{fi}"
        if ent is None:
            missing.append(f)
            continue
        rname = ent[0]
        for setk in range(3):
            lines = [f"let mut h: u64 = {f.basis()}; /*{tag}*/"]
            args = []
            allleaves = []
            for i, p in enumerate(f.params):
                e, lv = value_expr(p, setk + i, f"a{i}", lines)
                args.append(e)
                allleaves += lv
            for e, k in allleaves:
                lines.append(gen_fn.rust_leaf_fold(e, k))
            if f.variadic:
                args += ["5i32", "2.5f64"]
                lines.append("fold(&mut h, 5u64); fold(&mut h, 2.5f64.to_bits());")
            call = f"unsafe {{ b::{rname}({', '.join(args)}) }}"
            lines.append(f"let r = {call};")
            lines.append(f'if unsafe {{ b::{gname("g_hash")} }} != h {{ println!("BAD {fi} {setk} arguments-did-not-arrive"); }} else {{ ok += 1; }}')
            if f.ret:
                r = f.ret
                if r.mode == "value":
                    lines.append(f'if !({gen_fn.rust_result_leaf_check("r", r.leaves[0][2], 0)}) {{ println!("BAD {fi} {setk} result-wrong"); }}')
                elif r.mode == "struct":
                    for j, (_, rs, k) in enumerate(r.leaves):
                        lines.append(f'if !({gen_fn.rust_result_leaf_check("r" + rs, k, j)}) {{ println!("BAD {fi} {setk} result-leaf{j}-wrong"); }}')
                else:
                    for j, (_, rs, k) in enumerate(r.leaves):
                        lines.append(f'if !({gen_fn.rust_result_leaf_check("(unsafe {{ *r }})" + rs, k, j)}) {{ println!("BAD {fi} {setk} result-leaf{j}-wrong"); }}')
            out.append("  { " + "\n    ".join(l + f" /*{tag}*/" for l in lines) + " }")
    # globals
    for g, t, v, kind in GLOBALS:
        G, CG, GET = gname(g), gname("c" + g), gname("get_" + g)
        out.append(f'  unsafe {{ if b::{G} != b::{CG} {{ println!("BADG {g} const-and-mutable-differ"); }} let before = b::{GET}(); if before != b::{G} {{ println!("BADG {g} read"); }} }}')
        newv = {"sint": "(3i64) as _", "uint": "(9u64) as _", "float": "(0.5f64) as _", "bool": "false"}[kind]
        out.append(f'  unsafe {{ b::{G} = {newv}; if b::{GET}() != b::{G} {{ println!("BADG {g} write"); }} }}')
    out.append(f'  unsafe {{ if b::{gname("g_s")}.a != -9 || b::{gname("g_s")}.b != 4.5 || b::{gname("g_arr")}[1] != -2 || *b::{gname("g_str")}.add(1) as u8 != b\'e\' {{ println!("BADG aggregates read"); }} }}')
    out.append('  println!("OK {}", ok);')
    out.append("}")
    return "\n".join(out), missing


OPTS = [("default", [], None), ("merge", ["--merge-extern-blocks"], None), ("sort", ["--sort-semantically"], None), ("merge-sort", ["--merge-extern-blocks", "--sort-semantically"], None),
        ("c-naming", ["--c-naming"], None), ("rename-cb", [], {"log": False, "rename": True}), ("rust170", ["--rust-target", "1.70"], None),
        ("no-doc", ["--no-doc-comments"], None)]


def new_check(tier):
    return Check("C04", tier, LEVEL,
                 "cases = function signatures (every type as result / single parameter; all ordered parameter pairs over the alphabet; "
                 "struct x struct; triples over 7 types; variadic tails; register exhaustion; keyword and `$` names) and 8+3 globals, x 8 "
                 "option rows; each called 3 times with rotating boundary values; non-trivial = signatures with a by-value aggregate, a "
                 "pointer, an array, a callback or more than one parameter")


def run(ck, only=None):
    wd = ck.wd
    fns = functions(ck.tier, ck.seed)
    if only:
        fns = [f for f in fns if f.cid() == only.get("cid") and f.name == only.get("name", f.name)]
    libs = [fns[i:i + PER_LIB] for i in range(0, len(fns), PER_LIB)]
    opts = OPTS if ck.tier == "thorough" else OPTS[:1] + [OPTS[(1 + ck.seed) % 7 + 1 if False else 3], OPTS[5], OPTS[4]]
    if only:
        opts = [o for o in OPTS if o[0] == only.get("opt", "default")]
    for li, lib in enumerate(libs):
        make_lib(lib, wd, f"lib{li}")
    def build_obj(li):
        rc, _, err = common.clang(["-std=gnu11", "-O1", "-w", "-c", f"lib{li}.c", "-o", f"lib{li}.o"], cwd=wd)
        if rc != 0:
            raise common.Machinery(f"C04 generated library does not compile: {err[:800]}")
    common.pmap(build_obj, range(len(libs)))
    for oname, flags, cb in opts:
        NAMING["mode"] = "c-naming" if oname == "c-naming" else "rename" if oname == "rename-cb" else "plain"
        only_first = oname != "default" and ck.tier == "quick"
        use = [(li, lib) for li, lib in enumerate(libs) if not only_first or li < 2 or any(f.abi for f in lib)]
        jobs = []
        for li, lib in use:
            j = {"id": f"{oname}|{li}", "args": [os.path.join(wd, f"lib{li}.h"), "--formatter", "prettyplease", "--no-layout-tests"] + flags, "inventory": True, "timeout": 120}
            if cb:
                j["callbacks"] = cb
            jobs.append(j)
        res = common.run_jobs(jobs, wd, timeout=120)

        def one(t):
            li, lib = t
            r = res[f"{oname}|{li}"]
            out = []
            if r["status"] != "ok":
                return [(f, "generation-failed", str(r.get("err") or r.get("panic"))[:200]) for f in lib]
            idx = rust_name_index(r["inventory"])
            bp = os.path.join(wd, f"{oname}_lib{li}_b.rs")
            open(bp, "w").write(r["text"])
            prefix = "::root" if any(it["kind"] == "mod" and it["name"] == "root" for it in r["inventory"]["items"]) else ""
            live = list(lib)
            for attempt in range(4):
                src, missing = rust_caller(live, idx, bp, prefix)
                for f in missing:
                    out.append((f, "no-binding", "the function has no binding with its symbol name"))
                live = [f for f in live if f not in missing]
                mp = os.path.join(wd, f"{oname}_lib{li}_main.rs")
                open(mp, "w").write(src)
                exe = os.path.join(wd, f"{oname}_lib{li}_exe")
                ok, tags, msgs = probes.rustc_diagnose(mp, exe, r["text"], bp, extra=["-C", f"link-arg={os.path.join(wd, 'lib%d.o' % li)}"])
                if ok:
                    break
                bt = probes.last_by_tag()
                bad = [f for k, f in enumerate(live) if f"K{k}" in tags]
                if not bad:
                    return out + [(f, "caller-does-not-compile", "; ".join(sorted(set(msgs))[:3])) for f in live]
                for k, f in enumerate(live):
                    if f"K{k}" in tags:
                        out.append((f, "signature-not-call-compatible", " | ".join(sorted(set(bt.get(f"K{k}", msgs[:2]))))[:300]))
                live = [f for f in live if f not in bad]
            else:
                return out + [(f, "caller-does-not-compile", "not settled") for f in live]
            p = common.sh([exe], timeout=120)
            if p.returncode != 0:
                return out + [(f, "caller-crashed", f"exit {p.returncode} {p.stderr.decode()[-200:]}") for f in live]
            for line in p.stdout.decode().splitlines():
                w = line.split()
                if w[0] == "BAD":
                    out.append((live[int(w[1])], w[3], f"value set {w[2]}"))
                elif w[0] == "BADG":
                    out.append((None, "global " + " ".join(w[1:]), ""))
            if li == 0:
                for sym, outer, inner, want, gh in FNRET_RS:
                    if sym not in idx:
                        out.append((None, f"fnret {sym} has no binding", ""))
                        continue
                    gsym = idx["g_hash"][0] if "g_hash" in idx else "g_hash"
                    src1 = (gen_fn.RUST_HELPERS.replace("@B@", bp).replace("mod b {", "mod b0 {") + f"use b0{prefix} as b;\nfn main() {{ let fp = unsafe {{ b::{idx[sym][0]}{outer} }}; "
                            f"let g = unsafe {{ b::{gsym} }}; let r = unsafe {{ (fp.unwrap()){inner} }}; if r != ({want}) as _ || g != {gh} {{ println!(\"BAD\"); }} }}\n")
                    mp1 = os.path.join(wd, f"{oname}_fnret_{sym}.rs")
                    open(mp1, "w").write(src1)
                    exe1 = os.path.join(wd, f"{oname}_fnret_{sym}_exe")
                    ok1, err1 = common.rustc_bin(mp1, exe1, opt=False, extra=["-C", f"link-arg={os.path.join(wd, 'lib0.o')}"])
                    if not ok1:
                        m = re.search(r"error(\[E\d+\])?: (.*)", err1)
                        out.append((None, f"fnret {sym}: the returned function pointer is not call-compatible with `{[l for l in FNRET_H.splitlines() if sym in l][0]}`", (m.group(2) if m else err1[:200])))
                    elif "BAD" in common.sh([exe1], timeout=60).stdout.decode():
                        out.append((None, f"fnret {sym}: calling through the returned function pointer gives a wrong result", ""))
            # symbol identity / mutability of globals
            for g, t, v, kind in GLOBALS:
                e, ce = idx.get(g), idx.get("c" + g)
                if e is None or ce is None:
                    out.append((None, f"global {g} not bound", ""))
                elif not e[1].get("mutable") or ce[1].get("mutable"):
                    out.append((None, f"global {g} mutability wrong (mutable={e[1].get('mutable')}, const={ce[1].get('mutable')})", ""))
            return out

        for li, lib in use:
            for f in lib:
                ck.count()
                if len(f.params) > 1 or any(p.mode != "value" for p in f.params) or (f.ret and f.ret.mode != "value"):
                    ck.nontriv((f.cid(), oname))
        for results in common.pmap(one, use):
            seen = set()
            for f, what, why in results:
                if f is None:
                    ck.violation(f"{what} opt={oname}", {"opt": oname, "why": what + " " + why})
                    continue
                key = (f.cid(), f.name, what)
                if key in seen:
                    continue
                seen.add(key)
                longdouble = False
                ck.violation(f"{f.cid()} name={f.name if not f.name.startswith('K') else 'K'} opt={oname} {what}",
                             {"cid": f.cid(), "name": f.name, "opt": oname, "why": f"{what}: {why}; prototype: {f.proto()}"})
    if not only or only.get("cpp"):
        cpp_part(ck)
    if not only or only.get("linkage"):
        linkage_part(ck)
        symbols_part(ck)
        abi_names_part(ck)
    if only and (only.get("cpp") or only.get("linkage")):
        return
    ck.sample({"signature": fns[min(len(fns) - 1, 200)].cid(), "prototype": fns[min(len(fns) - 1, 200)].proto()})
    ck.extra["functions"] = len(fns)
    ck.extra["libraries"] = len(libs)
    ck.extra["option_rows"] = len(opts)
    ck.assume("host ABI (SysV x86-64) only; long double is not in the alphabet (Rust has no 80-bit float: recorded separately); foreign-target symbol decoration of the design is not built")


CPP_H = r"""
extern unsigned long long g_hash;
namespace geo {
struct Vec { int x; double y; Vec(); Vec(int x, double y); ~Vec(); int sum() const; int add(int d); static int make_count(); Vec scaled(int k) const;
             int over(int a) const; int over(int a, int b) const; int over(double d) const; };
int free_fn(const Vec &v, Vec *out);
int take(Vec v, int k);
}
class Counter { public: Counter(int start); virtual ~Counter(); virtual int bump(int by); int value() const; int value(int scale) const; static int live; private: int v; };
struct Pod3 { char a, b, c; }; Pod3 rot(Pod3 p);
struct Pt { int x, y; Pt(int x, int y); Pt plus(int d) const; static Pt origin(); };
struct Base { int a; int geta() const; }; struct Der : Base { int k; int total() const; };
bool is_neg(long long v); unsigned char uch(unsigned char c, signed char s, char16_t w);
"""
CPP_CC = r"""
#include "cls.hpp"
unsigned long long g_hash;
namespace geo {
static int made = 0;
Vec::Vec() : x(7), y(0.5) { made++; }
Vec::Vec(int x_, double y_) : x(x_), y(y_) { made++; }
Vec::~Vec() { g_hash = 0xdead0000ull + (unsigned)x; }
int Vec::sum() const { return x + (int)(y * 2); }
int Vec::add(int d) { x += d; return x; }
int Vec::make_count() { return made; }
Vec Vec::scaled(int k) const { return Vec(x * k, y * k); }
int Vec::over(int a) const { return x + a; }
int Vec::over(int a, int b) const { return x + a * b; }
int Vec::over(double d) const { return x + (int)(d * 10); }
int free_fn(const Vec &v, Vec *out) { out->x = v.x + 1; out->y = v.y + 1; return v.x; }
int take(Vec v, int k) { return v.x + (int)(v.y * 2) + k; }
}
Pt::Pt(int x_, int y_) : x(x_), y(y_) {}
Pt Pt::plus(int d) const { return Pt(x + d, y + d); }
Pt Pt::origin() { return Pt(0, 0); }
int Base::geta() const { return a; }
int Der::total() const { return a + k; }
int Counter::live = 0;
Counter::Counter(int start) : v(start) { live++; }
Counter::~Counter() { live--; }
int Counter::bump(int by) { v += by; return v; }
int Counter::value() const { return v; }
int Counter::value(int scale) const { return v * scale; }
Pod3 rot(Pod3 p) { Pod3 r = { p.b, p.c, p.a }; return r; }
bool is_neg(long long v) { return v < 0; }
unsigned char uch(unsigned char c, signed char s, char16_t w) { return (unsigned char)(c + s + w); }
"""
CPP_TESTS = [
 ("ctor-args", "let v = b::geo_Vec::new1(3, 2.5); ok(v.x == 3 && v.y == 2.5);"),
 ("default-ctor", "let d = b::geo_Vec::new(); ok(d.x == 7 && d.y == 0.5);"),
 ("const-method", "let v = b::geo_Vec::new1(3, 2.5); ok(v.sum() == 8);"),
 ("mut-method", "let mut v = b::geo_Vec::new1(3, 2.5); ok(v.add(4) == 7 && v.x == 7);"),
 ("static-method", "let a = b::geo_Vec::make_count(); let _v = b::geo_Vec::new(); let _w = b::geo_Vec::new1(1, 1.0); ok(a == 0 && b::geo_Vec::make_count() == 2);"),
 ("overloads", "let v = b::geo_Vec::new1(7, 2.5); ok(v.over(1) == 8 && v.over1(2, 3) == 13 && v.over2(1.5) == 22);"),
 ("reference-params", "let v = b::geo_Vec::new1(7, 2.5); let mut out: b::geo_Vec = std::mem::zeroed(); ok(b::geo_free_fn(&v, &mut out) == 7 && out.x == 8 && out.y == 3.5);"),
 ("destructor", "let mut v = b::geo_Vec::new1(7, 2.5); v.destruct(); ok(b::g_hash == 0xdead0000u64 + 7);"),
 ("nontrivial-class-result", "let v = b::geo_Vec::new1(7, 2.5); let s = v.scaled(2); ok(s.x == 14 && s.y == 5.0);"),
 ("nontrivial-class-argument", "let v = b::geo_Vec::new1(7, 2.5); ok(b::geo_take(v, 3) == 7 + 5 + 3);"),
 ("static-member", "let a = b::Counter_live; let _c = b::Counter::new(10); ok(a == 0 && b::Counter_live == 1);"),
 ("virtual-method", "let mut c = b::Counter::new(10); ok(b::Counter_bump(&mut c as *mut _ as *mut _, 5) == 15 && c.value() == 15);"),
 ("overloaded-const-method", "let c = b::Counter::new(10); ok(c.value() == 10 && c.value1(3) == 30);"),
 ("virtual-destructor", "let mut c = b::Counter::new(10); b::Counter_Counter_destructor(&mut c); ok(b::Counter_live == 0);"),
 ("small-struct", "let r = b::rot(b::Pod3 { a: 1, b: 2, c: 3 }); ok((r.a, r.b, r.c) == (2, 3, 1));"),
 ("trivial-class-result", "let p = b::Pt::new(3, 4); let q = p.plus(2); ok(q.x == 5 && q.y == 6 && b::Pt_origin().x == 0);"),
 ("bool-result", "ok(b::is_neg(-1) && !b::is_neg(5));"),
 ("char-kinds", "ok(b::uch(200, -100, 7) == 107);"),
 ("base-method", "let mut d: b::Der = std::mem::zeroed(); d._base.a = 5; d.k = 9; ok(d.total() == 14 && b::Base_geta(&d._base) == 5);"),
 ("operator-and-conversion-skipped", "ok(true);"),
]
CPP_RS = r"""
#![allow(warnings)]
mod b { include!("@B@"); }
fn ok(c: bool) { if !c { println!("BAD"); } }
fn main() {
  let which = std::env::args().nth(1).unwrap();
  unsafe {
    match which.as_str() {
@ARMS@
      _ => { println!("BAD unknown test"); }
    }
  }
  println!("DONE");
}
"""


def cpp_part(ck):
    """C++ classes linked against a clang++ object: methods, static methods, constructors (MaybeUninit protocol), destructors,
    overloads, references, static members."""
    wd = os.path.join(ck.wd, "cpp")
    os.makedirs(wd, exist_ok=True)
    open(os.path.join(wd, "cls.hpp"), "w").write(CPP_H)
    open(os.path.join(wd, "cls.cc"), "w").write(CPP_CC)
    rc, _, err = common.clang(["-x", "c++", "-std=c++14", "-O1", "-w", "-c", "cls.cc", "-o", "cls.o"], cwd=wd)
    common.guard(rc == 0, "C04 C++ library does not compile: " + err[:400])
    rows = [("default", []), ("merge-sort", ["--merge-extern-blocks", "--sort-semantically"]), ("namespaces", ["--enable-cxx-namespaces"]),
            ("rust170", ["--rust-target", "1.70"]), ("wrap-unsafe", ["--wrap-unsafe-ops"])]
    jobs = [{"id": n, "args": [os.path.join(wd, "cls.hpp"), "--no-layout-tests"] + fl + ["--", "-x", "c++", "-std=c++14"]} for n, fl in rows]
    res = common.run_jobs(jobs, wd, timeout=120)
    for n, fl in rows:
        ck.count()
        ck.nontriv(("cpp", n))
        r = res[n]
        det = {"cpp": True, "opt": n}
        if r["status"] != "ok":
            ck.violation(f"cpp-classes opt={n} generation-failed", dict(det, why=str(r)[:200]))
            continue
        bp = os.path.join(wd, f"b_{n.replace('-', '_')}.rs")
        open(bp, "w").write(r["text"])
        arms = "\n".join(f'      "{t}" => {{ {code} }}' for t, code in CPP_TESTS)
        src = CPP_RS.replace("@B@", bp).replace("@ARMS@", arms)
        if n == "namespaces":
            src = src.replace("mod b { include!", "mod b0 { include!").replace("fn ok(", "use b0::root as b;\nuse b0::root::geo as g;\nfn ok(")
            src = re.sub(r"b::geo_(\w+)", r"g::\1", src)
        mp = os.path.join(wd, f"main_{n.replace('-', '_')}.rs")
        open(mp, "w").write(src)
        exe = os.path.join(wd, f"exe_{n.replace('-', '_')}")
        ok, err = common.rustc_bin(mp, exe, opt=False, extra=["-C", f"link-arg={os.path.join(wd, 'cls.o')}", "-C", "link-arg=-lstdc++"])
        if not ok:
            m = re.search(r"error(\[E\d+\])?: (.*)", err)
            ck.violation(f"cpp-classes opt={n} caller-does-not-build", dict(det, why=(m.group(0) if m else err[:300])))
            continue
        for t, _ in CPP_TESTS:
            ck.count()
            ck.nontriv(("cpp", n, t))
            p = common.sh([exe, t], timeout=60)
            out = p.stdout.decode()
            if p.returncode != 0 or "DONE" not in out:
                ck.violation(f"cpp-classes opt={n} test={t} caller-crashed", dict(det, why=f"exit {p.returncode}"))
            elif "BAD" in out:
                ck.violation(f"cpp-classes opt={n} test={t} wrong-value", dict(det, why=f"the values observed through the bindings differ from the C++ definition's ({t})"))


INL_H = r"""
static inline int si_clamp(int v) { return v < 0 ? 0 : v; }
inline int il_twice(int v) { return 2 * v; }
extern inline int ei_neg(int v) { return -v; }
static int st_plain(int v) { return v + 1; }
static inline int si_unused(int v) { return v; }
int normal_fn(int v);
extern int normal_var;
static int st_var = 3;
static const int st_cvar = 4;
int init_mut = 5;
double init_ratio = 0.5;
const int init_const = 6;
void (__attribute__((noreturn)) *get_handler(int which))(int);
"""
INL_C = r"""
#include "inl.h"
extern inline int il_twice(int v);
int normal_var = 9;
int normal_fn(int v) { return si_clamp(v) + st_plain(v) + st_var; }
static void __attribute__((noreturn)) spin(int c) { for (;;) { (void)c; } }
void (__attribute__((noreturn)) *get_handler(int which))(int) { (void)which; return spin; }
"""
INL_EXPECT = {"normal_fn": ("(-4)", "0 + -3 + 3"), "il_twice": ("(21)", "42"), "ei_neg": ("(5)", "-5")}


def linkage_part(ck):
    """Linkage kinds: every function / variable the bindings DECLARE must be a symbol the C compiler defines with external
    linkage (nm), and calling it gives the C result; internal-linkage functions may only appear as constants or not at all."""
    wd = os.path.join(ck.wd, "linkage")
    os.makedirs(wd, exist_ok=True)
    open(os.path.join(wd, "inl.h"), "w").write(INL_H)
    open(os.path.join(wd, "inl.c"), "w").write(INL_C)
    rc, _, err = common.clang(["-O0", "-w", "-c", "inl.c", "-o", "inl.o"], cwd=wd)
    common.guard(rc == 0, "C04 linkage library does not compile: " + err[:300])
    nm = common.sh(["nm", "--defined-only", "-g", os.path.join(wd, "inl.o")]).stdout.decode()
    defined = {l.split()[-1] for l in nm.splitlines() if l.strip()}
    common.guard({"normal_fn", "normal_var", "il_twice", "ei_neg", "init_mut", "init_ratio", "get_handler"} <= defined and "si_clamp" not in defined,
                 f"C04 linkage oracle unexpected symbol table: {sorted(defined)}")
    rows = [("default", []), ("generate-inline", ["--generate-inline-functions"]), ("generate-inline-merge", ["--generate-inline-functions", "--merge-extern-blocks"]),
            ("generate-inline-fns-only", ["--generate-inline-functions", "--generate", "functions"]), ("c-naming-inline", ["--generate-inline-functions", "--c-naming"]),
            ("prefix-link-name", ["--prefix-link-name", "pfx_"])]
    res = common.run_jobs([{"id": n, "args": [os.path.join(wd, "inl.h"), "--no-layout-tests"] + fl, "inventory": True} for n, fl in rows], wd)
    for n, fl in rows:
        r = res[n]
        det = {"linkage": True, "opt": n}
        if r["status"] != "ok":
            ck.count()
            ck.violation(f"linkage opt={n} generation-failed", dict(det, why=str(r)[:200]))
            continue
        idx = rust_name_index(r["inventory"])
        if n == "prefix-link-name":
            # the object is not rebuilt with prefixed names: the row checks the symbol TEXT of every declaration
            for sym, ent in sorted(idx.items()):
                ck.count()
                ck.nontriv(("linkage", n, sym))
                if sym != "pfx_" + ent[0]:
                    ck.violation(f"linkage opt={n} symbol={ent[0]} link-name-override-ignored", dict(det, why=f"`{ent[0]}` is declared against the symbol `{sym}` although the override asks for `pfx_{ent[0]}`"))
            continue
        # mutable globals with an initialiser are globals (symbol, mutability), and a function RETURNING a pointer to a noreturn function returns
        for sym in ("init_mut", "init_ratio"):
            ck.count()
            ent = idx.get(sym)
            if "--generate" in fl:
                continue
            if ent is None or "mut" not in ent[1].get("tokens", ""):
                ck.violation(f"linkage opt={n} symbol={sym} initialised-global-not-a-mutable-static", dict(det, why=f"`{sym}` is a mutable global with external linkage; the bindings have {('`' + ent[1].get('tokens', '')[:80] + '`') if ent else 'no foreign static for it'}"))
        gh = idx.get("get_handler")
        ck.count()
        if gh is not None and re.search(r"->\s*!\s*;?\s*$", gh[1].get("tokens", "").strip()):
            ck.violation(f"linkage opt={n} symbol=get_handler result-declared-diverging", dict(det, why=f"get_handler returns a pointer to a noreturn function, it does return: `{gh[1].get('tokens', '')[:120]}`"))
        for sym in sorted(idx):
            ck.count()
            ck.nontriv(("linkage", n, sym))
            if sym not in defined:
                ck.violation(f"linkage opt={n} symbol={sym} dangling-declaration", dict(det, why=f"the bindings declare `{idx[sym][0]}` but the object file defines no external symbol `{sym}` (defined: {sorted(defined)})"))
        must = {"normal_fn"} | ({"normal_var"} if "functions" not in fl else set()) | ({"il_twice", "ei_neg"} if "--generate-inline-functions" in fl else set())
        for sym in sorted(must - set(idx)):
            ck.count()
            ck.violation(f"linkage opt={n} symbol={sym} no-binding", dict(det, why=f"no declaration reaches the external symbol `{sym}`"))
        live = [sym for sym in INL_EXPECT if sym in idx and sym in defined]
        bp = os.path.join(wd, f"b_{n.replace('-', '_')}.rs")
        open(bp, "w").write(r["text"])
        body = "\n".join(f'    if b::{idx[sym][0]}{INL_EXPECT[sym][0]} != {INL_EXPECT[sym][1]} {{ println!("BAD {sym}"); }}' for sym in live)
        if "normal_var" in idx:
            body += "\n    if b::" + idx["normal_var"][0] + ' != 9 { println!("BAD normal_var"); }'
        src = '#![allow(warnings)]\nmod b { include!("' + bp + '"); }\nfn main() { unsafe {\n' + body + '\n  }\n  println!("DONE");\n}\n'
        mp = os.path.join(wd, f"main_{n.replace('-', '_')}.rs")
        open(mp, "w").write(src)
        exe = os.path.join(wd, f"exe_{n.replace('-', '_')}")
        ok, err = common.rustc_bin(mp, exe, opt=False, extra=["-C", f"link-arg={os.path.join(wd, 'inl.o')}"])
        ck.count()
        if not ok:
            m = re.search(r"error(\[E\d+\])?: (.*)", err)
            ck.violation(f"linkage opt={n} caller-does-not-build", dict(det, why=(m.group(0) if m else err[:300])))
            continue
        p = common.sh([exe], timeout=60)
        out = p.stdout.decode()
        if p.returncode != 0 or "DONE" not in out or "BAD" in out:
            ck.violation(f"linkage opt={n} wrong-value", dict(det, why=f"exit {p.returncode}: {out[:200]}"))


SYM_C = r"""
int plain_fn(int);
int labelled(int) __asm__("_labelled$V2");
int labelled_other(int) __asm__("other_name");
int under_foo(int) __asm__("_under_foo");
int same_label(int) __asm__("same_label");
extern int gvar_plain;
extern int gvar_lab __asm__("_gvar$INODE64");
extern int gvar_under __asm__("_gvar_under");
extern const int cvar_lab __asm__("cvar_renamed");
"""
SYM_C_USE = "int use_all(void) { return plain_fn(1) + labelled(1) + labelled_other(1) + under_foo(1) + same_label(1) + gvar_plain + gvar_lab + gvar_under + cvar_lab; }\n"
SYM_CPP = r"""
void Z(); void Zed(int); void _Z3foov_like(); int over(int); int over(char);
namespace N { void f(); extern int g; }
struct S { void m(); static void sm(); int x; S(int); ~S(); };
extern "C" void c_linkage(int);
extern "C" int c_labelled(int) __asm__("_c_labelled$X");
"""
SYM_CPP_USE = "void use_all() { Z(); Zed(1); _Z3foov_like(); over(1); over('c'); N::f(); N::g = 1; S s(1); s.m(); S::sm(); c_linkage(1); c_labelled(1); }\n"
SYM_TARGETS = [("x86_64-unknown-linux-gnu", ""), ("x86_64-apple-darwin", "_"), ("aarch64-unknown-linux-gnu", ""), ("i686-unknown-linux-gnu", "")]


def symbols_part(ck):
    """The symbol each declaration binds, per TARGET, without executing anything: a translation unit that uses every declaration
    is compiled by `clang --target=T -c`; its undefined symbols (llvm-nm -u) are what the declarations refer to on T. A foreign
    item of the bindings refers to: its `#[link_name]` taken literally when it starts with the byte 0x01, otherwise its link name or
    identifier with the target's global prefix (`_` on Mach-O). Every symbol the bindings refer to must be one the C compiler
    refers to, and every C symbol must be reached."""
    wd = os.path.join(ck.wd, "symbols")
    os.makedirs(wd, exist_ok=True)
    n = 0
    for lang, decl, use in (("c", SYM_C, SYM_C_USE), ("cpp", SYM_CPP, SYM_CPP_USE)):
        ext = "h" if lang == "c" else "hpp"
        hp = os.path.join(wd, f"sym.{ext}")
        open(hp, "w").write(decl)
        up = os.path.join(wd, f"use_{lang}.{'c' if lang == 'c' else 'cc'}")
        open(up, "w").write(f'#include "sym.{ext}"\n' + use)
        jobs = [{"id": f"{lang}|{t}", "args": [hp, "--no-layout-tests", "--formatter", "none", "--", f"--target={t}"] + (["-x", "c++", "-std=c++14"] if lang == "cpp" else []),
                 "inventory": True} for t, _ in SYM_TARGETS]
        res = common.run_jobs(jobs, wd)
        for t, prefix in SYM_TARGETS:
            obj = os.path.join(wd, f"use_{lang}_{t}.o")
            rc, _, err = common.clang((["-x", "c++", "-std=c++14"] if lang == "cpp" else []) + [f"--target={t}", "-c", "-O0", "-w", "-fno-exceptions", "-fno-stack-protector", "-o", obj, up], cwd=wd)
            common.guard(rc == 0, f"C04 symbols: use file does not compile for {t}: {err[:300]}")
            nm = common.sh(["llvm-nm", "-u", obj]).stdout.decode()
            csyms = {l.split()[-1] for l in nm.splitlines() if l.strip()}
            csyms = {x for x in csyms if not re.fullmatch(r"_*(GLOBAL_OFFSET_TABLE_|Unwind_Resume|_gxx_personality_v0|_stack_chk_fail|_stack_chk_guard)", x)}   # runtime support
            r = res[f"{lang}|{t}"]
            det = {"symbols": True, "target": t, "lang": lang}
            ck.count()
            if r["status"] != "ok":
                ck.violation(f"symbols lang={lang} target={t} generation-failed", dict(det, why=str(r)[:200]))
                continue
            refs = {}

            def walk(items):
                for it in items:
                    if it["kind"] == "mod":
                        walk(it["items"])
                    elif it["kind"] == "foreign_mod":
                        for fi in it["items"]:
                            ln = fi.get("link_name")
                            if ln and ln.startswith("\x01"):
                                refs[ln[1:]] = fi["name"]
                            else:
                                refs[prefix + (ln or fi["name"])] = fi["name"]
            walk(r["inventory"]["items"])
            for sym, rname in sorted(refs.items()):
                ck.count()
                n += 1
                ck.nontriv(("symbols", lang, t, sym))
                if sym not in csyms:
                    ck.violation(f"symbols lang={lang} target={t} item={rname} refers-to={sym}", dict(det, predicate=f"symbols|{lang}|{'macho' if prefix else 'elf'}|{rname}",
                                 why=f"the binding `{rname}` refers to the symbol `{sym}` on {t}, which the C compiler does not use for any declaration of the header (it uses {sorted(csyms)[:14]})"))
            # every function / variable symbol of the C side is reached (C: all of them; C++: the ones bindgen is expected to bind)
            expect = csyms if lang == "c" else {x for x in csyms if not re.search(r"C[12]E|D[012]Ev", x)}
            for sym in sorted(expect - set(refs)):
                ck.count()
                ck.violation(f"symbols lang={lang} target={t} symbol={sym} not-reached", dict(det, predicate=f"symbols-unreached|{lang}|{'macho' if prefix else 'elf'}|{sym}",
                             why=f"no binding refers to `{sym}` on {t}; the bindings refer to {sorted(refs)[:14]}"))
    ck.extra["symbol_references_checked"] = n


ABI_NAMES_H = r"""
struct ops { long (*fold)(long a, long b); long (__attribute__((ms_abi)) *tick)(long x); void (*cb)(int); };
long __attribute__((ms_abi)) fold(long a, long b);
long tick(long x);
typedef void (__attribute__((ms_abi)) *cb)(int);
void takes(cb c, void (*fold)(int));
void __attribute__((ms_abi)) unrelated(void);
typedef int cbfn(int, void *);
struct HoldsFnTypedef { cbfn *f; cbfn *arr[2]; };
int take_fntd(cbfn *p);
cbfn *give_fntd(void);
"""


def abi_names_part(ck):
    """Declarations that SHARE A NAME but not a calling convention (a function and a function-pointer member, a typedef and a
    member, a parameter), under option rows that contain an --override-abi for some OTHER name: each signature keeps its own
    convention (read from the bindings' tokens: the ABI of the extern block / of the `extern "..." fn` pointer type)."""
    wd = os.path.join(ck.wd, "abinames")
    os.makedirs(wd, exist_ok=True)
    hp = os.path.join(wd, "abinames.h")
    open(hp, "w").write(ABI_NAMES_H)
    rows = [("default", []), ("override-unrelated", ["--override-abi", "unrelated=C"]), ("override-absent", ["--override-abi", "no_such_function=system"]),
            ("override-unrelated-merge", ["--override-abi", "unrelated=C", "--merge-extern-blocks"])]
    res = common.run_jobs([{"id": n, "args": [hp, "--no-layout-tests", "--formatter", "none"] + fl, "inventory": True} for n, fl in rows], wd)
    want_fn = {"fold": "win64", "tick": "C", "takes": "C", "unrelated": None}
    for n, fl in rows:
        r = res[n]
        det = {"linkage": True, "abinames": n}
        ck.count()
        if r["status"] != "ok":
            ck.violation(f"abi-names opt={n} generation-failed", dict(det, why=str(r)[:200]))
            continue
        fn_abi, fields, types = {}, {}, {}
        for it in r["inventory"]["items"]:
            if it["kind"] == "foreign_mod":
                for fi in it["items"]:
                    fn_abi[fi["name"]] = it.get("abi")
            elif it["kind"] == "struct" and it["name"] == "ops":
                fields = {f["name"]: f["ty"].replace(" ", "") for f in it["fields"]}
            elif it["kind"] == "type":
                types[it["name"]] = it["tokens"].replace(" ", "")
        probs = []
        for name, abi in want_fn.items():
            got = fn_abi.get(name)
            want = abi if name != "unrelated" else ("C" if "unrelated=C" in fl else "win64")
            if got != want:
                probs.append(f"function {name}: extern \"{got}\" block, declared convention is \"{want}\"")
        for fname, abi in (("fold", "C"), ("tick", "win64"), ("cb", "C")):
            if f'extern"{abi}"fn' not in fields.get(fname, ""):
                probs.append(f"member ops.{fname}: `{fields.get(fname)}`, declared convention is \"{abi}\"")
        if 'extern"win64"fn' not in types.get("cb", ""):
            probs.append(f"typedef cb: `{types.get('cb')}`, declared convention is \"win64\"")
        # a pointer to a typedef of a FUNCTION type is a function pointer, not a pointer to a slot holding one
        hf = next((it for it in r["inventory"]["items"] if it["kind"] == "struct" and it["name"] == "HoldsFnTypedef"), None)
        sigs = {fi["name"]: fi["tokens"].replace(" ", "") for it in r["inventory"]["items"] if it["kind"] == "foreign_mod" for fi in it["items"]}
        for what, text in ([(f"member HoldsFnTypedef.{f['name']}", f["ty"].replace(" ", "")) for f in (hf["fields"] if hf else [])]
                           + [("parameter of take_fntd", sigs.get("take_fntd", "")), ("result of give_fntd", sigs.get("give_fntd", ""))]):
            if "*mutcbfn" in text or "*constcbfn" in text or "cbfn" not in text:
                probs.append(f"{what}: `{text[:90]}` - expected an Option of the function-pointer typedef `cbfn`, not a raw pointer to it")
        ck.nontriv(("abinames", n))
        if probs:
            ck.violation(f"abi-names opt={n}", dict(det, why="; ".join(probs)[:600]))
    ck.extra["abi_name_rows"] = len(rows)


def replay(ck, case, detail):
    n0 = len(ck.violations)
    run(ck, only=detail)
    return not any(c == case for c, _ in ck.violations[n0:])
