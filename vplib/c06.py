"""C06 - embedded layout assertions are complete and state the C compiler's numbers.

Explored: the gen_c record family x 8 targets (constant tables from `clang --target=T -S -emit-llvm`, no
execution) x both assertion forms (rust target 1.76: #[test] fn, 1.77: const _) x namespaces on/off, plus C++
template instantiations; and layout tests off (nothing but the assertions may change).
Oracle: syn inventory of the bindings (assertion items parsed back) vs the clang table.
"""
import os
import re

from . import common, gen_c, probes
from .common import Check

LEVEL = "exploration"
BATCH = 300
TARGETS = ["x86_64-unknown-linux-gnu", "i686-unknown-linux-gnu", "aarch64-unknown-linux-gnu", "armv7-unknown-linux-gnueabihf",
           "riscv64-unknown-linux-gnu", "x86_64-pc-windows-msvc", "i686-pc-windows-msvc", "wasm32-unknown-unknown"]
SPECIAL = re.compile(r"^(_bitfield_\d+|_bitfield_align_\d+|_bindgen_align|__bindgen_padding_\d+|_base(_\d+)?|vtable_|_address|_phantom_\d+|_bindgen_opaque_blob|_unused|__bindgen_anon_\d+|bindgen_union_field)$")

INST_CPP = r'''
template <typename T> struct Box { T t; T *p; };
template <typename A, typename B> struct Pair { A a; B b; };
namespace small { struct Elem { char c; }; }
namespace big { struct Elem { double d[4]; }; }
struct UsesInst { Box<int> a; Box<small::Elem> s; Box<big::Elem> b; Pair<char, double> p; Pair<Box<short>, int> q; };
struct AlsoUses { Box<int> again; Box<big::Elem> *ptr_only; };
// union templates, and instantiations that are only ever used behind a pointer or a reference (clang computes no layout for them
// unless asked): an assertion about them is optional, but its numbers are not
template <typename T> union Slot { T t; char c; };
template <typename T> union Handle { T *p; char tag[12]; };
template <typename T> struct Node { T v; Node<T> *next; char c; };
struct PtrOnly { Slot<long double> *a; Handle<double> *b; Slot<short> &r; Slot<int> byval; Node<double> *n; Node<char> nc; };
'''


def clang_table(cases, target, wd, name, lang="c"):
    """sizeof / alignof / offsetof of every case for `target`, read from LLVM IR (no execution)."""
    src = [f'#include "{name}.h"' if lang == "c" else ""]
    for c in cases:
        T = c.c_name()
        src.append(f"const unsigned long long t_{c.tag}_size = sizeof({T}); const unsigned long long t_{c.tag}_align = _Alignof({T});")
        for f, kind in c.fields():
            if not kind.startswith("bits"):
                src.append(f"const unsigned long long t_{c.tag}_off_{re.sub(r'[^A-Za-z0-9_]', '_', f)} = __builtin_offsetof({T}, {f});")
    p = os.path.join(wd, f"{name}_{target}_tab.c")
    open(p, "w").write("\n".join(src))
    rc, out, err = common.clang([f"--target={target}", "-S", "-emit-llvm", "-O0", "-w", "-o", "-", p], cwd=wd)
    if rc != 0:
        return None, err[:400]
    tab = {}
    for m in re.finditer(r"@t_(K\d+)_(size|align|off_(\w+)) = .*?constant i64 (\d+)", out):
        tab.setdefault(m.group(1), {})[m.group(2)] = int(m.group(4))
    return tab, None


ASSERT_RE_CONST = re.compile(r'\["(Sizeoftemplatespecialization:|Alignoftemplatespecialization:|Sizeof|Alignmentof|Offsetoffield:)([^"]*)"\]\[.*?(size_of|align_of|offset_of!)(.*?)-(\d+)usize\]')
ASSERT_RE_TEST = re.compile(r'assert_eq!\((.*?),(\d+)usize,"(Sizeoftemplatespecialization:|Alignoftemplatespecialization:|Sizeof|Alignmentof|Offsetoffield:)([^"]*)"\)')


def assertions(inv):
    """{("size"|"align", type) -> n, ("off", type, field) -> n}, plus list of instantiation assertions (kind, type expr, n)."""
    out, inst = {}, []

    def add(kind, name, n, expr):
        if kind == "Sizeof":
            out[("size", name)] = n
        elif kind == "Alignmentof":
            out[("align", name)] = n
        elif kind == "Offsetoffield:":
            t, f = name.split("::", 1)
            out[("off", t, f)] = n
        elif kind.startswith("Sizeoftemplate"):
            m = re.search(r"size_of::<(.*)>\(\)", expr)
            inst.append(("size", m.group(1) if m else expr, n))
        else:
            m = re.search(r"align_of::<(.*)>\(\)", expr)
            inst.append(("align", m.group(1) if m else expr, n))

    def walk(items):
        for it in items:
            if it["kind"] == "mod":
                walk(it["items"])
            elif it["kind"] == "assert_block":
                for st in it["stmts"]:
                    s = re.sub(r"\s+", "", st)
                    for m in ASSERT_RE_CONST.finditer(s):
                        add(m.group(1), m.group(2), int(m.group(5)), m.group(3) + m.group(4))
            elif it["kind"] == "test_fn":
                for st in it["stmts"]:
                    s = re.sub(r"\s+", "", st)
                    for m in ASSERT_RE_TEST.finditer(s):
                        add(m.group(3), m.group(4), int(m.group(2)), m.group(1))
    walk(inv["items"])
    return out, inst


def has_assert_items(inv):
    n = 0

    def walk(items):
        nonlocal n
        for it in items:
            if it["kind"] == "mod":
                walk(it["items"])
            elif it["kind"] in ("assert_block", "test_fn"):
                n += 1
    walk(inv["items"])
    return n


def strip_asserts(inv):
    def walk(items):
        out = []
        for it in items:
            if it["kind"] == "mod":
                out.append(("mod", it["name"], walk(it["items"])))
            elif it["kind"] in ("assert_block", "test_fn"):
                continue
            else:
                out.append(it["tokens"])
        return out
    return walk(inv["items"])


def new_check(tier):
    return Check("C06", tier, LEVEL,
                 "cases = gen_c records x 8 targets x {const, #[test]} assertion forms x namespaces on/off + template instantiations; every "
                 "record definition in the bindings must carry size, alignment and per-member offset assertions whose numbers equal the "
                 "clang table of that target; non-trivial = (record, target) pairs whose numbers differ from the host's or that have padding")


def check_batch(ck, cases, inv, tab, variant, target):
    asr, _ = assertions(inv)
    idx = probes.index_inventory(inv)
    for c in cases:
        ck.count()
        it = idx.get(c.tag)
        case = f"{c.cid} target={target} form={variant}"
        det = {"cid": c.cid, "target": target, "variant": variant, "source": c.source()}
        if it is None:
            ck.violation(case + " type-missing", dict(det, why="record not defined in the bindings"))
            continue
        fields = [f["name"] for f in it["fields"]]
        if fields == ["_unused"] or it.get("generics"):
            continue
        t = tab.get(c.tag, {})
        probs = []
        for what in ("size", "align"):
            got = asr.get((what, c.tag))
            if got is None:
                probs.append(f"no {what} assertion")
            elif got != t.get(what):
                probs.append(f"{what} asserted {got}, clang --target={target} says {t.get(what)}")
        opaque = "_bindgen_opaque_blob" in fields
        for f, kind in c.fields():
            if kind.startswith("bits") or opaque:
                continue
            path = probes.resolve_field(idx, c.tag, f)
            if path is None:
                probs.append(f"member {f} not exposed")
                continue
            owner = c.tag
            for comp in path[:-1]:
                owner = (probes.field_ty(idx, owner, [comp]) or "").replace("root::", "")
                mm = re.fullmatch(r"__BindgenUnionField<(.*)>", owner)
                if mm:
                    owner = mm.group(1)
            got = asr.get(("off", owner, path[-1]))
            if got is None:
                probs.append(f"no offset assertion for member {f}")
            elif len(path) == 1 and got != t.get("off_" + re.sub(r"[^A-Za-z0-9_]", "_", f)):
                probs.append(f"offset of {f} asserted {got}, clang says {t.get('off_' + re.sub(r'[^A-Za-z0-9_]', '_', f))}")
        # every named, non-special field of the definition must have an offset assertion
        for f in it["fields"]:
            if SPECIAL.match(f["name"]) or opaque:
                continue
            if ("off", c.tag, f["name"]) not in asr:
                probs.append(f"field {f['name']} of the definition has no offset assertion")
        if t.get("size") is not None:
            ck.nontriv((c.cid, target if (t.get("size"), t.get("align")) != (None, None) else "x"))
        if probs:
            from .c01 import structure_class
            kinds = sorted({p.split()[0] + ("-" + p.split()[1] if p.startswith("no ") else "") for p in probs})
            ck.violation(case, dict(det, predicate=f"{'+'.join(kinds)}|{structure_class(c)}|{target}", why="; ".join(sorted(set(probs)))[:600]))


def run(ck, only=None):
    wd = ck.wd
    recs = gen_c.enumerate_records(2, atoms=[a.key for a in gen_c.ATOMS if a.key != "i128"])  # __int128 does not exist on the 32-bit targets
    if ck.tier == "quick":
        keys = [a.key for a in gen_c.ATOMS]
        pick = {k for i, k in enumerate(keys) if (i + ck.seed) % 6 == 2}
        recs = [c for c in recs if len(c.atoms) == 1 or c.atoms[0] in pick]
        ck.cap("quick tier: 2-member records whose first member is in a rotated sixth of the atom alphabet")
    # members with their own alignment attribute (padding in front of them depends on the recorded member offsets)
    extra = gen_c.enumerate_records(2, atoms=["char", "int", "llong", "double", "ptr", "arr3c", "nest5"], rattrs=["plain", "al8"], mattrs=["mal8", "mal16", "mal64"])
    for i, c in enumerate(extra):
        c.tag = f"K{50000 + i}"
    recs = recs + extra
    # layout-neutral attributes that libclang does not expose (bindgen only learns "some unknown attribute is present")
    neutral = gen_c.enumerate_records(2, atoms=["char", "int", "llong", "double", "ptr", "arr3c", "nest5", "bfA"], rattrs=[r[0] for r in gen_c.NEUTRAL_RECORD_ATTRS])
    neutral += gen_c.enumerate_records(2, atoms=["char", "int", "llong", "double", "ptr"], rattrs=["plain", "packed"], mattrs=["mdep", "munused"])
    if ck.tier == "quick":
        neutral = [c for k, c in enumerate(neutral) if len(c.atoms) == 1 or (k + ck.seed) % 3 == 0]
    for i, c in enumerate(neutral):
        c.tag = f"K{70000 + i}"
    recs = recs + neutral
    # very large records (both sides of 1 MiB, 16 MiB): a size threshold in how assertions are emitted must not drop any of them
    huge = gen_c.enumerate_records(3, atoms=["char", "int", "llong", "huge1m", "huge1m1", "huge16m", "huge256m", "huge512m"], rattrs=["plain", "packed"])
    huge = [c for c in huge if any(a.startswith("huge") for a in c.atoms) and sum(a.startswith("huge") for a in c.atoms) == 1 and (len(c.atoms) < 3 or ck.tier == "thorough" or c.atoms[1].startswith("huge"))]
    for i, c in enumerate(huge):
        c.tag = f"K{90000 + i}"
    recs = recs + huge
    ck.extra["huge_records"] = len(huge)
    if only:
        recs = [c for c in recs if c.cid == only.get("cid")]
    batches = [(f"b{i // BATCH}", recs[i:i + BATCH]) for i in range(0, len(recs), BATCH)]
    variants = []
    for t in TARGETS:
        variants.append((t, "const", ["--rust-target", "1.77"]))
    variants.append((TARGETS[0], "testfn", ["--rust-target", "1.76"]))
    variants.append((TARGETS[1], "testfn", ["--rust-target", "1.76"]))
    variants.append((TARGETS[0], "const-ns", ["--enable-cxx-namespaces"]))
    variants.append((TARGETS[0], "explicit-padding", ["--explicit-padding"]))
    if only:
        variants = [v for v in variants if v[0] == only.get("target") and v[1] == only.get("variant")]
    for name, cases in batches:
        hp = os.path.join(wd, f"{name}.h")
        open(hp, "w").write("\n".join(c.source() for c in cases) + "\n")
    jobs = []
    for t, vname, flags in variants:
        for name, cases in batches:
            jobs.append({"id": f"{t}|{vname}|{name}", "args": [os.path.join(wd, f"{name}.h"), "--formatter", "none"] + flags + ["--", f"--target={t}"],
                         "inventory": True, "text": False, "timeout": 120})
    # layout tests off: nothing else changes
    off_jobs = []
    if not only or only.get("variant") == "off":
        for name, cases in batches:
            for flags, tag in (([], "on"), (["--no-layout-tests"], "off")):
                off_jobs.append({"id": f"lt|{tag}|{name}", "args": [os.path.join(wd, f"{name}.h"), "--formatter", "none"] + flags, "inventory": True, "text": False, "timeout": 120})
    res = common.run_jobs(jobs + off_jobs, wd, timeout=120)
    tabs = {}
    for t in sorted({v[0] for v in variants}):
        for name, cases in batches:
            tab, err = clang_table(cases, t, wd, name)
            if tab is None:
                raise common.Machinery(f"clang cannot produce the constant table for {t}: {err}")
            tabs[(t, name)] = tab
    for t, vname, flags in variants:
        for name, cases in batches:
            r = res[f"{t}|{vname}|{name}"]
            if r["status"] != "ok":
                for c in cases:
                    ck.count()
                    ck.violation(f"{c.cid} target={t} form={vname} generation-failed", {"cid": c.cid, "target": t, "variant": vname, "predicate": f"gen|{t}", "why": str(r.get("err") or r.get("panic"))[:300]})
                continue
            check_batch(ck, cases, r["inventory"], tabs[(t, name)], vname, t)
    # the target selected the way a cargo build script selects it: no --target argument, TARGET (and the CARGO_CFG_* variables cargo
    # sets next to it) in the environment. Rust triples and clang triples / cfg values are spelled differently (i686 vs x86, ...)
    if not only or only.get("variant") == "env-target":
        cfg_arch = {"x86_64": "x86_64", "i686": "x86", "aarch64": "aarch64", "armv7": "arm", "riscv64gc": "riscv64"}
        env_targets = [("i686-unknown-linux-gnu", "i686-unknown-linux-gnu"), ("aarch64-unknown-linux-gnu", "aarch64-unknown-linux-gnu"), ("armv7-unknown-linux-gnueabihf", "armv7-unknown-linux-gnueabihf"),
                       ("riscv64gc-unknown-linux-gnu", "riscv64-unknown-linux-gnu"), ("i686-pc-windows-msvc", "i686-pc-windows-msvc")]
        if ck.tier == "quick":
            env_targets = env_targets[:2] + env_targets[4:]
        name0, cases0 = batches[0]
        for rust_t, clang_t in env_targets:
            if only and only.get("target") != rust_t:
                continue
            arch = rust_t.split("-")[0]
            env = dict(common.ENV, TARGET=rust_t, HOST="x86_64-unknown-linux-gnu", CARGO_CFG_TARGET_ARCH=cfg_arch[arch],
                       CARGO_CFG_TARGET_OS="windows" if "windows" in rust_t else "linux", CARGO_CFG_TARGET_POINTER_WIDTH="32" if arch in ("i686", "armv7") else "64")
            r = common.run_jobs([{"id": "e", "args": [os.path.join(wd, f"{name0}.h"), "--formatter", "none"], "inventory": True, "text": False, "timeout": 120, "fresh": True}], wd, timeout=120, env=env)["e"]
            tab, err = (tabs[(clang_t, name0)], None) if (clang_t, name0) in tabs else clang_table(cases0, clang_t, wd, name0)
            if tab is None:
                raise common.Machinery(f"clang cannot produce the constant table for {clang_t}: {err}")
            if r["status"] != "ok":
                ck.count()
                ck.violation(f"env-target {rust_t} generation-failed", {"variant": "env-target", "target": rust_t, "why": str(r)[:200]})
                continue
            check_batch(ck, cases0, r["inventory"], tab, "env-target", rust_t)
    for name, cases in batches:
        if f"lt|on|{name}" not in res:
            continue
        on, off = res[f"lt|on|{name}"], res[f"lt|off|{name}"]
        ck.count()
        if on["status"] != "ok" or off["status"] != "ok":
            continue
        if has_assert_items(off["inventory"]):
            ck.violation(f"layout-tests-off batch={name} assertions-remain", {"variant": "off", "why": "assertion items are emitted although layout tests are disabled"})
        if strip_asserts(on["inventory"]) != strip_asserts(off["inventory"]):
            a, b = strip_asserts(on["inventory"]), strip_asserts(off["inventory"])
            diff = [x for x in a if x not in b][:2] + [x for x in b if x not in a][:2]
            ck.violation(f"layout-tests-off batch={name} other-items-change", {"variant": "off", "why": f"disabling layout tests changes other items: {str(diff)[:400]}"})
        ck.nontriv(("off", name))
    if not only or only.get("variant") == "inst":
        instantiations(ck)
    ck.sample({"record": recs[len(recs) // 2].cid if recs else None, "targets": TARGETS})
    ck.extra["records"] = len(recs)
    ck.extra["targets"] = len(TARGETS)
    ck.assume("numbers for foreign targets come from clang constant folding (`-S -emit-llvm`), nothing is executed for them")


def instantiations(ck):
    wd = os.path.join(ck.wd, "inst")
    os.makedirs(wd, exist_ok=True)
    hp = os.path.join(wd, "inst.hpp")
    open(hp, "w").write(INST_CPP)
    jobs = []
    for rt in ("1.76", "1.77"):
        for ns in (False, True):
            jobs.append({"id": f"inst|{rt}|{ns}", "args": [hp, "--formatter", "none", "--rust-target", rt] + (["--enable-cxx-namespaces"] if ns else []), "inventory": True, "text": False})
    res = common.run_jobs(jobs, wd)
    # expected concrete instantiations and their C++ numbers (host)
    probe = INST_CPP + "\n#include <stdio.h>\nint main(){\n" + "\n".join(
        f'printf("{n} %zu %zu\\n", sizeof({t}), alignof({t}));' for n, t in
        [("Box<int>", "Box<int>"), ("Box<small::Elem>", "Box<small::Elem>"), ("Box<big::Elem>", "Box<big::Elem>"), ("Pair<char,f64>", "Pair<char, double>"),
         ("Box<short>", "Box<short>"), ("Pair<Box<short>,int>", "Pair<Box<short>, int>"), ("Slot<int>", "Slot<int>"), ("Node<char>", "Node<char>"),
         ("?Slot<u128>", "Slot<long double>"), ("?Handle<f64>", "Handle<double>"), ("?Slot<short>", "Slot<short>"), ("?Node<f64>", "Node<double>")]) + "\nreturn 0;}\n"
    pp = os.path.join(wd, "p.cpp")
    open(pp, "w").write(probe)
    rc, _, err = common.clang(["-x", "c++", "-std=c++14", "-w", "-o", os.path.join(wd, "p"), pp])
    common.guard(rc == 0, "C06 instantiation probe does not compile: " + err[:300])
    want = {}
    for line in common.sh([os.path.join(wd, "p")]).stdout.decode().splitlines():
        n, s, a = line.rsplit(" ", 2)
        want[n] = (int(s), int(a))
    for jid, r in res.items():
        ck.count()
        ck.nontriv(jid)
        if r["status"] != "ok":
            ck.violation(f"instantiations {jid} generation-failed", {"variant": "inst", "why": str(r)[:200]})
            continue
        _, inst = assertions(r["inventory"])
        # normalise the Rust type expressions of the assertions: drop `root::`, C int names
        def norm(t):
            t = t.replace("root::", "").replace("::std::os::raw::c_", "").replace("::", "_" if False else "::")
            t = t.replace("small_Elem", "small::Elem").replace("big_Elem", "big::Elem")
            return t
        got = {}
        for kind, ty, n in inst:
            got.setdefault(norm(ty), {})[kind] = n
        for name, (s, a) in want.items():
            key = name
            if name.startswith("?"):
                # optional (pointer-only) instantiation: if anything is asserted about it, the numbers are C++'s
                g = got.get(name[1:])
                if g is not None and (g.get("size", s) != s or g.get("align", a) != a):
                    ck.violation(f"instantiations {jid} type={name[1:]} wrong-numbers", {"variant": "inst",
                                 "why": f"instantiation {name[1:]} is used only behind a pointer; its assertions {g} contradict C++ (size {s}, align {a})"})
                continue
            g = got.get(key)
            if g is None or g.get("size") != s or g.get("align") != a:
                ck.violation(f"instantiations {jid} type={name}", {"variant": "inst",
                             "why": f"concrete instantiation {name} (size {s}, align {a}) has assertions {g}; all instantiation assertions: {sorted(got)}"})


def replay(ck, case, detail):
    n0 = len(ck.violations)
    run(ck, only=detail)
    return not any(c == case for c, _ in ck.violations[n0:])
