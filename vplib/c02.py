"""C02 - generated types match the C compiler's size, alignment, offsets and values.

Explored: every record (struct/union) with <= w members over the 30-atom member alphabet of gen_c x 12 record
attributes (+ member attributes on the last member), observed by a clang-built C probe and a rustc-built Rust
probe over the bindings the real bindgen produces: size, alignment, member offsets and sizes, signedness
and values (both sides store the same member values into a zeroed object; the object bytes must be identical
and the Rust side must read back what C reads back). Presentation options (k<=1) must not move any number.
"""
import os

from . import common, gen_c, probes
from .common import Check

LEVEL = "exploration"
BATCH = 250

PRESENTATION = [
    ("derives", ["--with-derive-default", "--with-derive-hash", "--with-derive-partialeq", "--with-derive-eq", "--with-derive-ord",
                 "--with-derive-partialord", "--impl-debug", "--impl-partialeq"]),
    ("no-derives", ["--no-derive-copy", "--no-derive-debug"]),
    ("enum-rust", ["--default-enum-style", "rust"]), ("enum-newtype", ["--default-enum-style", "newtype"]),
    ("enum-module", ["--default-enum-style", "moduleconsts"]), ("enum-bitfield", ["--default-enum-style", "bitfield"]),
    ("alias-newtype", ["--default-alias-style", "new_type"]), ("alias-deref", ["--default-alias-style", "new_type_deref"]),
    ("union-wrapper", ["--default-non-copy-union-style", "bindgen_wrapper", "--no-derive-copy"]),
    ("union-manuallydrop", ["--default-non-copy-union-style", "manually_drop", "--no-derive-copy"]),
    ("explicit-padding", ["--explicit-padding"]), ("namespaces", ["--enable-cxx-namespaces"]),
    ("flexarray-dst", ["--flexarray-dst"]), ("use-core", ["--use-core"]),
    ("rust164", ["--rust-target", "1.64"]), ("untagged-off", ["--disable-untagged-union"]),
]


def new_check(tier):
    return Check("C02", tier, LEVEL,
                 "cases = records with <= w members over 30 member atoms x 12 record attributes x {struct, union} (+ member attributes); "
                 "each observed under the default options with values and under every presentation option (numbers only); non-trivial "
                 "= record whose C layout has padding, packing, over-alignment, a bit-field unit or an anonymous member")


def nontrivial(c, centry):
    if c.rattr != "plain" or c.mattr:
        return True
    if any(k in ("bfA", "bfB", "bfC", "anons", "anonu", "nestpk", "nestal", "ldouble", "i128", "zla", "flex") for k in c.atoms):
        return True
    if centry and centry.get("F"):
        used = sum(s for (_, s) in centry["F"].values())
        return used != centry["T"][0]
    return False


def compare(ck, c, res, variant, values):
    case = f"{c.cid} opt={variant}"
    det = {"cid": c.cid, "variant": variant, "source": c.source()}
    ce, re_ = res["c"], res["r"]
    if res["gen"] != "ok":
        ck.violation(case + " generation-failed", dict(det, why=f"bindgen failed on an accepted record: {res['gen']} {res.get('gen_detail')}"))
        return
    if res["rust_error"]:
        # whether the bindings compile is property C01 (checked there on the same records); without a compiled
        # Rust side there are no numbers to compare
        ck.extra["rust_rejected_records_left_to_C01"] = ck.extra.get("rust_rejected_records_left_to_C01", 0) + 1
        return "rejected"
    if ce is None or re_ is None or "T" not in re_:
        if res["missing"] == ["<type not emitted>"]:
            ck.violation(case + " type-missing", dict(det, why="the record is not defined in the bindings"))
        else:
            raise common.Machinery(f"C02: no transcript for {c.tag} {c.cid}: c={ce is not None} r={re_}")
        return
    problems = []
    if ce["T"] != re_["T"]:
        problems.append(f"size/align C={ce['T']} Rust={re_['T']}")
    opaque = False
    for f, (off, size) in ce["F"].items():
        if f in res["missing"]:
            opaque = True
            continue
        rf = re_["F"].get(f)
        if rf is None:
            continue
        if rf[1] == -1:
            rf = (rf[0], size)  # union wrapper member: zero-sized typed accessor, only its offset is comparable
        if rf != (off, size):
            problems.append(f"member {f}: offset/size C={(off, size)} Rust={rf}")
    if values and not opaque:
        for f, v in ce["V"].items():
            rv = re_["V"].get(f)
            if rv is not None and rv != v:
                problems.append(f"member {f}: C reads {v}, Rust reads {rv} (signedness / width)")
        if not problems and re_.get("D") is not None and ce.get("D") != re_.get("D") and not res["missing"]:
            problems.append(f"object bytes after storing the same member values differ: C={ce.get('D')} Rust={re_.get('D')}")
    if problems:
        from .c01 import structure_class
        kinds = sorted({("size-align" if p.startswith("size/align") else "value" if "reads" in p else "bytes" if p.startswith("object bytes") else "offset") for p in problems})
        ck.violation(case, dict(det, predicate=f"{'+'.join(kinds)}|{structure_class(c)}|{variant}", why="; ".join(problems)[:700]))


def run(ck, only=None):
    from . import c02f
    if only and only.get("foreign"):
        c02f.run(ck, only)
        return
    if not only:
        c02f.run(ck)
    if only and only.get("cxxrow"):
        cxx_layout_part(ck, only)
        return
    if not only:
        cxx_layout_part(ck)
    w = 2
    cases = gen_c.enumerate_records(w)
    # member attributes on the last member (plain record attribute only)
    extra = gen_c.enumerate_records(2, rattrs=["plain", "packed", "pp2"], mattrs=[m for m, _ in gen_c.MEMBER_ATTRS if m])
    for i, c in enumerate(extra):
        c.tag = f"K{len(cases) + i + 1}"
    cases = cases + extra
    # arrays of over-aligned elements (struct_layout.rs has a special case for them): alone, before/after/between small members
    oa = gen_c.enumerate_records(3, atoms=["char", "int"] + gen_c.OVERALIGNED_ARRAY_ATOMS, rattrs=["plain", "packed", "al16", "pp4"])
    if ck.tier != "thorough":
        oa = [c for c in oa if len(c.atoms) <= 2 or (c.atoms[1] in gen_c.OVERALIGNED_ARRAY_ATOMS and c.atoms[0] in ("char", "int") and c.atoms[2] in ("char", "int"))]
    oa = [c for c in oa if set(c.atoms) & set(gen_c.OVERALIGNED_ARRAY_ATOMS)]
    # anonymous over-aligned members after / between members of every small size (the offset they start from matters)
    an = gen_c.enumerate_records(3, atoms=["char", "int", "llong"] + gen_c.ANON_OVERALIGNED_ATOMS, rattrs=["plain", "al16"], kinds=("struct",))
    oa += [c for c in an if sum(a in gen_c.ANON_OVERALIGNED_ATOMS for a in c.atoms) == 1 and (len(c.atoms) < 3 or c.atoms[1] in gen_c.ANON_OVERALIGNED_ATOMS)]
    # pointers to functions whose calling convention is (un)supported: alone and between small members
    fa = gen_c.enumerate_records(3, atoms=["char", "int"] + gen_c.FNPTR_ABI_ATOMS, rattrs=["plain", "packed"])
    oa += [c for c in fa if set(c.atoms) & set(gen_c.FNPTR_ABI_ATOMS) and (len(c.atoms) <= 2 or (c.atoms[1] in gen_c.FNPTR_ABI_ATOMS and c.atoms[0] == "char" and c.atoms[2] == "int"))]
    # the <stdint.h> / <stddef.h> names: alone, after a char (padding shows the alignment), before a char (tail shows the size)
    sn = gen_c.enumerate_records(2, atoms=["char"] + gen_c.STD_NAME_ATOMS, rattrs=["plain", "packed"], kinds=("struct",))
    oa += [c for c in sn if set(c.atoms) & set(gen_c.STD_NAME_ATOMS) and (len(c.atoms) == 1 or "char" in c.atoms)]
    for i, c in enumerate(oa):
        c.tag = f"K{len(cases) + i + 1}"
    cases = cases + oa
    n_fixed = len(oa)
    if ck.tier == "thorough":
        sub = ["char", "int", "llong", "double", "ldouble", "ptr", "arr3c", "nestpk", "nestal", "anons", "bfA", "bfB", "flex"]
        w3 = gen_c.enumerate_records(3, atoms=sub, rattrs=["plain", "packed", "al16", "pp2", "pp4"])
        w3 = [c for c in w3 if len(c.atoms) == 3]
        for i, c in enumerate(w3):
            c.tag = f"K{len(cases) + i + 1}"
        cases += w3
    else:
        # quick: all 1-member records, and the 2-member records of a VERIF_SEED-rotated third of the first-member atoms
        keys = [a.key for a in gen_c.ATOMS]
        pick = {k for i, k in enumerate(keys) if (i + ck.seed) % 6 == 0}
        cases = [c for c in cases if len(c.atoms) == 1 or c.atoms[0] in pick or (set(c.atoms) & set(gen_c.OVERALIGNED_ARRAY_ATOMS + gen_c.FNPTR_ABI_ATOMS + gen_c.STD_NAME_ATOMS))]
        ck.cap("quick tier: 2-member records whose first member is in a rotated sixth of the atom alphabet; thorough: all, plus 3-member "
               "records over a 13-atom sub-alphabet")
    if only:
        cases = [c for c in cases if c.cid == only["cid"]]
    bywd = os.path.join(ck.wd, "b")
    batches = [(f"base{i // BATCH}", cases[i:i + BATCH]) for i in range(0, len(cases), BATCH)]
    rejected = set()
    if not only or only.get("variant") == "default":
        res = probes.run_layout_batches(batches, bywd, [], values=True)
        for c in cases:
            ck.count()
            r = res[c.tag]
            if nontrivial(c, r["c"]):
                ck.nontriv(c.cid)
            if compare(ck, c, r, "default", True) == "rejected":
                rejected.add(c.cid)
        ck.sample({"case": cases[len(cases) // 3].cid, "c": cases[len(cases) // 3].source()})
    # presentation options: numbers must not move
    pres = PRESENTATION
    failed_default = {cid.split(" opt=")[0] for cid, _ in ck.violations} | {cid.split(" opt=")[0] for v in ck.finding_hits.values() for cid in v} | rejected
    pcases = [c for c in cases if c.cid not in failed_default]  # a record that is already wrong has no numbers to keep
    pcases = pcases if ck.tier == "thorough" else [c for k, c in enumerate(pcases) if k % 8 == 0]
    for vname, flags in pres:
        if only and only.get("variant") != vname:
            continue
        vb = [(f"{vname}{i // BATCH}", pcases[i:i + BATCH]) for i in range(0, len(pcases), BATCH)]
        res = probes.run_layout_batches(vb, os.path.join(ck.wd, "v_" + vname), flags, values=False)
        for c in pcases:
            ck.count()
            compare(ck, c, res[c.tag], vname, False)
    ck.extra["records"] = len(cases)
    ck.extra["presentation_variants"] = len(pres)
    ck.assume("host target x86_64-unknown-linux-gnu only; member values are boundary values per kind (negative for signed, all-ones "
              "for unsigned), not all values; bit-field members are covered by C03")


CXX_LAYOUT = r"""
struct Plain { int a; char b; };
typedef int (Plain::*pmf_t)(int);
typedef int Plain::*pmd_t;
struct HoldsPM { char c; pmf_t f; pmd_t d; char tail; };
struct Tbl { pmf_t fs[3]; int n; };
struct Refs { int &r; const double &d; char c; };
struct WithBool { bool b; wchar_t w; char16_t c16; char32_t c32; char z; };
enum class Small : unsigned char { A, B };
enum class Big : long long { X = 1LL << 40 };
enum Plain8 : signed char { P8 = -1 };
struct Enums { Small s; Big b; Small t; Plain8 p; int after; };
struct Base1 { long x; };
struct Derived1 : Base1 { char c; };
struct Derived2 : Derived1 { int deep; };
struct MultiA { int a; }; struct MultiB { long b; };
struct Multi : MultiA, MultiB { char m; };
struct Poly { virtual void f(); long v; };
struct DerP : Poly { int k; long m; };
struct Nested { struct In { short s; } in; In arr[2]; char t; };
struct Empty {};
struct HoldsEmpty { Empty e; int i; Empty e2; };
struct Arr { int m[2][3]; Plain ps[2]; char tail; };
struct Bits { unsigned a:3; bool f:1; long long w:40; char c; };
union UN { pmd_t d; char c3[3]; };
struct alignas(16) Al16 { char c; };
struct HoldsAl { char c; Al16 a; char t; };
template <typename T> struct Box { T t; char c; };
struct UsesBox { Box<char> bc; Box<long> bl; Box<pmf_t> bp; char tail; };
struct FnPtrs { void (*f)(int); int (Plain::*g)(); void *p; char c; };
// empty-base optimisation and the cases where the ABI must NOT apply it (a base may not share its address with a member of
// the same type): the first member moves off offset 0
struct TaggedE : Empty { char c; };
struct EboD0 : Empty { int x; };
struct EboD1 : Empty { Empty first; int x; };
struct EboD2 : Empty { TaggedE first; };
struct EboD3 : Empty { TaggedE first[2]; short s; };
struct Empty2 {};
struct EboD4 : Empty, Empty2 { Empty2 first; char c; long l; };
struct EboD5 : EboD0 { Empty e; char c; };
struct EboMid : Plain, Empty { Empty first; char z; };
"""
# type -> members probed with offsetof (Rust name == C++ name); bit-fields and bases are not named members
CXX_LAYOUT_MEMBERS = {"Plain": ["a", "b"], "HoldsPM": ["c", "f", "d", "tail"], "Tbl": ["fs", "n"], "Refs": ["r", "d", "c"],
                      "WithBool": ["b", "w", "c16", "c32", "z"], "Enums": ["s", "b", "t", "p", "after"], "Base1": ["x"], "Derived1": ["c"], "Derived2": ["deep"],
                      "Multi": ["m"], "Poly": ["v"], "DerP": ["k", "m"], "Nested": ["in", "arr", "t"], "HoldsEmpty": ["e", "i", "e2"],
                      "Arr": ["m", "ps", "tail"], "Bits": ["c"], "UN": [], "Al16": ["c"], "HoldsAl": ["c", "a", "t"],
                      "UsesBox": ["bc", "bl", "bp", "tail"], "FnPtrs": ["f", "g", "p", "c"], "pmf_t": [], "pmd_t": [],
                      "TaggedE": ["c"], "EboD0": ["x"], "EboD1": ["first", "x"], "EboD2": ["first"], "EboD3": ["first", "s"],
                      "EboD4": ["first", "c", "l"], "EboD5": ["e", "c"], "EboMid": ["first", "z"]}


def cxx_layout_part(ck, only=None):
    """C++-only layout: pointers to members (data: 8 bytes, function: 16), references, bool / wide characters, scoped and
    fixed-underlying-type enums, single / chained / multiple inheritance of POD bases, polymorphic bases without tail padding,
    nested and empty classes, alignas, template instantiations. clang++-built probe vs rustc-built probe."""
    import re
    wd = os.path.join(ck.wd, "cxxlayout")
    os.makedirs(wd, exist_ok=True)
    hp = os.path.join(wd, "layout.hpp")
    open(hp, "w").write(CXX_LAYOUT)
    lines = ['#include <cstdio>', '#include <cstddef>', '#include "layout.hpp"', "int main() {"]
    for t in CXX_LAYOUT_MEMBERS:
        lines.append(f'  printf("T {t} %zu %zu\\n", sizeof({t}), alignof({t}));')
        for f in CXX_LAYOUT_MEMBERS[t]:
            lines.append(f'  printf("F {t} {f} %zu\\n", offsetof({t}, {f}));')
    lines.append("  return 0; }")
    open(os.path.join(wd, "probe.cc"), "w").write("\n".join(lines) + "\n")
    rc, _, err = common.clang(["-x", "c++", "-std=c++14", "-w", "-Wno-invalid-offsetof", "probe.cc", "-o", "probe_c"], cwd=wd)
    common.guard(rc == 0, "C02 C++ layout probe does not compile: " + err[:300])
    cnum = {}
    for l in common.sh([os.path.join(wd, "probe_c")]).stdout.decode().splitlines():
        w = l.split()
        cnum[tuple(w[:2]) if w[0] == "T" else tuple(w[:3])] = w[2:] if w[0] == "T" else w[3:]
    rows = [("default", []), ("namespaces", ["--enable-cxx-namespaces"]), ("rust164", ["--rust-target", "1.64"]), ("explicit-padding", ["--explicit-padding"]),
            ("no-derives", ["--no-derive-copy", "--no-derive-debug"])]
    if only:
        rows = [r for r in rows if r[0] == only.get("cxxrow")]
    res = common.run_jobs([{"id": n, "args": [hp, "--no-layout-tests"] + fl + ["--", "-x", "c++", "-std=c++14"], "inventory": True} for n, fl in rows], wd, timeout=60)
    for n, fl in rows:
        r = res[n]
        det = {"cxxrow": n}
        if r["status"] != "ok":
            ck.count()
            ck.violation(f"cxx-layout row={n} generation-failed", dict(det, why=str(r)[:300]))
            continue
        idx = probes.index_inventory(r["inventory"])
        pre = "b::root::" if n == "namespaces" else "b::"
        bp = os.path.join(wd, f"b_{n.replace('-', '_')}.rs")
        open(bp, "w").write(r["text"])
        rl = ['#![allow(warnings)]', f'mod b {{ include!("{bp}"); }}', "use std::mem::{size_of, align_of, offset_of};", "fn main() {"]
        for t, fs in CXX_LAYOUT_MEMBERS.items():
            if t not in idx and t not in ("pmf_t", "pmd_t"):
                ck.count()
                ck.violation(f"cxx-layout row={n} type={t} not-emitted", dict(det, why=f"{t} has no definition in the bindings"))
                continue
            rl.append(f'  println!("T {t} {{}} {{}}", size_of::<{pre}{t}>(), align_of::<{pre}{t}>());')
            have = {f["name"] for f in idx[t]["fields"]} if t in idx else set()
            for f in fs:
                rf = gen_c.rust_field(f)
                if rf in have:
                    rl.append(f'  println!("F {t} {f} {{}}", offset_of!({pre}{t}, {rf}));')
                else:
                    ck.count()
                    ck.violation(f"cxx-layout row={n} member={t}.{f} missing", dict(det, why=f"{t}.{f} is not a member of the bindings' {t} ({sorted(have)})"))
        rl.append("}")
        mp = os.path.join(wd, f"main_{n.replace('-', '_')}.rs")
        open(mp, "w").write("\n".join(rl) + "\n")
        ok, err = common.rustc_bin(mp, mp[:-3], opt=False)
        if not ok:
            ck.count()
            mm = re.findall(r"error(?:\[E\d+\])?: .*", err)
            ck.violation(f"cxx-layout row={n} rustc-rejects", dict(det, why=" | ".join(mm[:3])[:400]))
            continue
        for l in common.sh([mp[:-3]]).stdout.decode().splitlines():
            w = l.split()
            key = tuple(w[:2]) if w[0] == "T" else tuple(w[:3])
            val = w[2:] if w[0] == "T" else w[3:]
            ck.count()
            ck.nontriv(("cxxlayout", n) + key)
            if cnum.get(key) != val:
                ck.violation(f"cxx-layout row={n} {'.'.join(key[1:])} {'size-align' if w[0] == 'T' else 'offset'}", dict(det, why=f"{' '.join(key)}: C++ {cnum.get(key)} Rust {val}"))
    ck.extra["cxx_layout_types"] = len(CXX_LAYOUT_MEMBERS)


def replay(ck, case, detail):
    n0 = len(ck.violations)
    run(ck, only=detail)
    return not any(c == case for c, _ in ck.violations[n0:])
