"""C13 - builder configuration and command-line flags round-trip to identical bindings.

Explored (all on the real implementation, in worker processes because builder_from_flags exits on clap
errors): every option row of the table below in isolation with every value of its domain, all pairs of
boolean rows, interacting pairs, hostile string arguments, header multiplicities; in both directions:
  (R) builder API -> command_line_flags() -> builder_from_flags -> command_line_flags(): flag lists equal,
      bindings byte-equal on the feature headers;
  (F) CLI flag -> builder vs the builder method the help text documents: flag lists and bindings equal.
The flag<->method table is written by hand from `bindgen --help` and the Builder docs, not from cli.rs.
"""
import itertools
import json
import os
import re

from . import common
from .common import Check

LEVEL = "exploration"

FEAT_C = r'''
/** A documented struct. */
struct S { char a; int b; double c; unsigned bf1:3; unsigned bf2:5; int arr[40]; };
struct P { char c; int i; } __attribute__((packed));
union U { int i; float f; struct S s; };
enum E { E_A, E_B = 5, E_C = -1 };
enum F { F_X = 1, F_Y = 2 };
typedef struct S S_t; typedef int myint; typedef enum E E_t; typedef myint myint2;
typedef unsigned long size_t;
typedef long ssize_t;
extern int gvar; extern const char *const gstr;
int fn_a(struct S *s, enum E e, myint m);
static inline int fn_inline(int x) { return x + 1; }
static int fn_static(int x) { return x; }
void fn_arr(int a[3], size_t n);
ssize_t fn_ss(void);
__attribute__((warn_unused_result)) int must(void);
struct MustUse { int x; }; struct MustUse mk(void);
#define M_INT 42
#define M_NEG -7
#define M_STR "str"
#define M_BIG 0x100000000
#define M_FLT 1.5
struct Flex { int n; int data[]; };
struct Fwd; struct Uses { struct Fwd *p; float fl; long double ld; double _Complex cd; };
struct Anon { struct { int x; }; union { int y; float z; }; struct { int q; } named; };
struct Outer { struct Inner { int v; } in; };
union NC { struct S s; int k; };
void other_fn(void); int other_var;
__attribute__((ms_abi)) int fn_ms(int a, int b);
__attribute__((ms_abi)) int fn_ms2(double d);
#define M_SIZEOF sizeof(int)
#define M_CAST ((unsigned char)300)
'''

FEAT_CPP = r'''
namespace ns { struct A { int x; }; namespace inner { struct B { A a; float f; }; } inline namespace v1 { struct C { int c; }; } }
class K { public: K(); K(int); ~K(); int m(int); static int sm(); virtual void v(); virtual void pv() = 0; int pub_f;
  K& operator=(const K&) = delete; bool operator==(const K&) const;
  protected: int prot_f; private: int priv_f; int priv_m(); };
struct D : K { void v() override; int d; };
template <typename T> struct Tm { T t; T* p; };
template <typename T, typename U> struct Tu { T only_t; };
struct UsesT { Tm<int> a; Tu<int, float> b; };
int& ref_fn(int& r, const K& k);
char16_t c16(char16_t c);
enum class EC : unsigned char { X, Y };
struct WithBits { unsigned a:1; unsigned b:31; };
inline int inl(int x) { return x; }
struct NoCopy { ~NoCopy(); int z; };
union UN { NoCopy n; int i; };
typedef int (*fp_t)(int, float);
struct FP { fp_t f; };
'''

# Each row: (name, flag argv, builder ops, note). The argv and ops must denote the same configuration
# according to the help text / Builder docs.
B = True


def rows():
    R = []

    def add(name, flags, ops, domain="one"):
        R.append({"name": name, "flags": flags, "ops": ops, "domain": domain})

    # boolean-like flags (presence) <-> method(bool) / no-arg method
    for flag, op in [
        ("--no-layout-tests", ["layout_tests", False]), ("--no-derive-copy", ["derive_copy", False]),
        ("--no-derive-debug", ["derive_debug", False]), ("--impl-debug", ["impl_debug", True]),
        ("--impl-partialeq", ["impl_partialeq", True]), ("--with-derive-default", ["derive_default", True]),
        ("--with-derive-hash", ["derive_hash", True]), ("--with-derive-partialeq", ["derive_partialeq", True]),
        ("--with-derive-partialord", ["derive_partialord", True]), ("--with-derive-eq", ["derive_eq", True]),
        ("--with-derive-ord", ["derive_ord", True]), ("--no-doc-comments", ["generate_comments", False]),
        ("--no-recursive-allowlist", ["allowlist_recursively", False]),
        ("--objc-extern-crate", ["objc_extern_crate", True]), ("--nonnull-references", ["generate_cxx_nonnull_references", True]),
        ("--generate-block", ["generate_block", True]), ("--generate-cstr", ["generate_cstr", True]),
        ("--block-extern-crate", ["block_extern_crate", True]), ("--distrust-clang-mangling", ["trust_clang_mangling", False]),
        ("--builtins", ["emit_builtins"]), ("--time-phases", ["time_phases", True]),
        ("--enable-cxx-namespaces", ["enable_cxx_namespaces"]), ("--disable-name-namespacing", ["disable_name_namespacing"]),
        ("--disable-nested-struct-naming", ["disable_nested_struct_naming"]),
        ("--disable-untagged-union", ["disable_untagged_union"]), ("--disable-header-comment", ["disable_header_comment"]),
        ("--ignore-functions", ["ignore_functions"]), ("--ignore-methods", ["ignore_methods"]),
        ("--no-convert-floats", ["no_convert_floats"]), ("--no-prepend-enum-name", ["prepend_enum_name", False]),
        ("--no-include-path-detection", ["detect_include_paths", False]),
        ("--fit-macro-constant-types", ["fit_macro_constants", True]), ("--use-core", ["use_core"]),
        ("--conservative-inline-namespaces", ["conservative_inline_namespaces"]),
        ("--generate-inline-functions", ["generate_inline_functions", True]),
        ("--no-record-matches", ["record_matches", False]), ("--no-size_t-is-usize", ["size_t_is_usize", False]),
        ("--enable-function-attribute-detection", ["enable_function_attribute_detection"]),
        ("--use-array-pointers-in-arguments", ["array_pointers_in_arguments", True]),
        ("--dynamic-link-require-all", ["dynamic_link_require_all", True]),
        ("--respect-cxx-access-specs", ["respect_cxx_access_specs", True]),
        ("--translate-enum-integer-types", ["translate_enum_integer_types", True]),
        ("--c-naming", ["c_naming", True]), ("--explicit-padding", ["explicit_padding", True]),
        ("--use-specific-virtual-function-receiver", ["use_specific_virtual_function_receiver", True]),
        ("--use-distinct-char16-t", ["use_distinct_char16_t", True]),
        ("--represent-cxx-operators", ["represent_cxx_operators", True]),
        ("--vtable-generation", ["vtable_generation", True]), ("--sort-semantically", ["sort_semantically", True]),
        ("--merge-extern-blocks", ["merge_extern_blocks", True]), ("--wrap-unsafe-ops", ["wrap_unsafe_ops", True]),
        ("--clang-macro-fallback", ["clang_macro_fallback"]), ("--flexarray-dst", ["flexarray_dst", True]),
        ("--wrap-static-fns", ["wrap_static_fns", True]),
        ("--generate-deleted-functions", ["generate_deleted_functions", True]),
        ("--generate-pure-virtual-functions", ["generate_pure_virtual_functions", True]),
        ("--generate-private-functions", ["generate_private_functions", True]),
            ]:
        add(flag[2:], [flag], [op], "bool")

    # regex / string valued flags
    for flag, meth, vals in [
        ("--bitfield-enum", "bitfield_enum", ["E", "F|E"]), ("--newtype-enum", "newtype_enum", ["E"]),
        ("--newtype-global-enum", "newtype_global_enum", ["E"]), ("--rustified-enum", "rustified_enum", ["E", "E.*"]),
        ("--rustified-non-exhaustive-enum", "rustified_non_exhaustive_enum", ["F"]),
        ("--constified-enum", "constified_enum", ["E"]), ("--constified-enum-module", "constified_enum_module", ["E", "F"]),
        ("--normal-alias", "type_alias", ["myint"]), ("--new-type-alias", "new_type_alias", ["myint", "my.*"]),
        ("--new-type-alias-deref", "new_type_alias_deref", ["myint"]),
        ("--bindgen-wrapper-union", "bindgen_wrapper_union", ["NC|UN"]), ("--manually-drop-union", "manually_drop_union", ["NC|UN"]),
        ("--blocklist-type", "blocklist_type", ["S", "Inner", "K"]), ("--blocklist-function", "blocklist_function", ["fn_a", "fn_.*"]),
        ("--blocklist-item", "blocklist_item", ["gvar", "ns::.*"]), ("--blocklist-var", "blocklist_var", ["gvar"]),
        ("--blocklist-file", "blocklist_file", [".*feat\\.h"]),
        ("--opaque-type", "opaque_type", ["S", "Tm"]), ("--allowlist-function", "allowlist_function", ["fn_a", "mk|must"]),
        ("--allowlist-type", "allowlist_type", ["Uses", "U", "D"]), ("--allowlist-var", "allowlist_var", ["M_.*", "gvar"]),
        ("--allowlist-file", "allowlist_file", [".*feat\\.h.*"]), ("--allowlist-item", "allowlist_item", ["E", "ns::inner::B"]),
        ("--ctypes-prefix", "ctypes_prefix", ["cty", "::libc", "a::b"]), ("--anon-fields-prefix", "anon_fields_prefix", ["anon_", "x"]),
        ("--raw-line", "raw_line", ["// raw", "use a::b as c;", '#![allow(dead_code)] // "q" = \'s\'']),
        ("--no-partialeq", "no_partialeq", ["S"]), ("--no-copy", "no_copy", ["S", "P|U"]), ("--no-debug", "no_debug", ["S"]),
        ("--no-default", "no_default", ["S"]), ("--no-hash", "no_hash", ["S"]), ("--must-use-type", "must_use_type", ["MustUse"]),
        ("--wasm-import-module-name", "wasm_import_module_name", ["wmod", "my mod"]),
        ("--extern-fn-block-attrs", "extern_fn_block_attrs", ['#[link(name = "z")]']),
        ("--dynamic-loading", "dynamic_library_name", ["Lib"]),
        ("--wrap-static-fns-suffix", "wrap_static_fns_suffix", ["_w", "__x y"]),
        ("--emit-ir-graphviz", "emit_ir_graphviz", ["@WD@/ir.dot"]),
        ("--clang-macro-fallback-build-dir", "clang_macro_fallback_build_dir", ["@WD@/mfb"]),
    ]:
        regex_opt = flag.startswith(("--allowlist", "--blocklist", "--opaque", "--no-", "--must-use", "--bitfield", "--newtype", "--rustified", "--constified",
                                     "--normal-alias", "--new-type", "--bindgen-wrapper", "--manually-drop"))
        if regex_opt and flag not in ("--blocklist-file", "--allowlist-file"):
            # a regular expression may contain every character the command line uses as a LIST separator elsewhere: counted
            # repetition `{m,n}`, alternation, a space, a semicolon, an `=`
            vals = vals + ["[A-Za-z]{1,2}", "(S|U){1,1}[ ;=]?"]
        for v in vals:
            add(f"{flag[2:]}={v}", [flag, v], [[meth, v]], "str")
        if len(vals) >= 2 and flag not in ("--ctypes-prefix", "--anon-fields-prefix", "--wasm-import-module-name", "--wrap-static-fns-suffix"):
            # repeated flag: every value, in an order that is not the sorted one (insertion order must survive the round trip)
            rv = sorted(vals, reverse=True)
            add(f"{flag[2:]}-repeated-descending", [x for v in rv for x in (flag, v)], [[meth, v] for v in rv], "str")
    # enumerated domains
    for v in ["consts", "moduleconsts", "bitfield", "newtype", "newtype_global", "rust", "rust_non_exhaustive"]:
        add(f"default-enum-style={v}", ["--default-enum-style", v], [["default_enum_style", v]], "enum")
    for v in ["signed", "unsigned"]:
        add(f"default-macro-constant-type={v}", ["--default-macro-constant-type", v], [["default_macro_constant_type", v]], "enum")
    for v in ["type_alias", "new_type", "new_type_deref"]:
        add(f"default-alias-style={v}", ["--default-alias-style", v], [["default_alias_style", v]], "enum")
    for v in ["bindgen_wrapper", "manually_drop"]:
        add(f"default-non-copy-union-style={v}", ["--default-non-copy-union-style", v], [["default_non_copy_union_style", v]], "enum")
    for v in ["private", "crate", "public"]:
        add(f"default-visibility={v}", ["--default-visibility", v], [["default_visibility", v]], "enum")
    for v in ["none", "rustfmt", "prettyplease"]:
        add(f"formatter={v}", ["--formatter", v], [["formatter", v]], "enum")
    for v in ["1.51", "1.64", "1.70", "1.76", "1.77", "1.82", "nightly"]:
        add(f"rust-target={v}", ["--rust-target", v], [["rust_target", v]], "enum")
    for v in ["2018", "2021"]:
        add(f"rust-edition={v}", ["--rust-edition", v], [["rust_edition", v]], "enum")
    for v in ["functions", "types", "vars", "methods", "constructors", "destructors", "functions,types", "types,vars,methods",
              "types,methods", "functions,types,vars,methods,constructors,destructors"]:
        add(f"generate={v}", ["--generate", v], [["with_codegen_config", v]], "enum")
    # two-argument / structured
    add("emit-diagnostics", ["--emit-diagnostics", "--experimental"], [["emit_diagnostics"]], "one")  # help: requires --experimental
    add("module-raw-line", ["--module-raw-line", "root::ns", "pub type X = i32;"], [["module_raw_line", "root::ns", "pub type X = i32;"]], "str")
    add("module-raw-line-x2", ["--enable-cxx-namespaces", "--module-raw-line", "root::ns", "pub type X = i32;", "--module-raw-line", "root", "pub type Y = u8;",
                               "--module-raw-line", "root::ns", "pub type Z = i8;"],
        [["enable_cxx_namespaces"], ["module_raw_line", "root::ns", "pub type X = i32;"], ["module_raw_line", "root", "pub type Y = u8;"],
         ["module_raw_line", "root::ns", "pub type Z = i8;"]], "str")
    add("override-abi", ["--override-abi", "fn_a=stdcall"], [["override_abi", "stdcall", "fn_a"]], "str")
    add("override-abi-x2-overlap", ["--override-abi", "fn_.*=system", "--override-abi", "fn_a=win64", "--override-abi", ".*=C-unwind"],
        [["override_abi", "system", "fn_.*"], ["override_abi", "win64", "fn_a"], ["override_abi", "C-unwind", ".*"]], "str")
    # an override back to the DEFAULT ABI is not a no-op when the function's own convention is another one
    add("override-abi-to-C", ["--override-abi", "fn_ms=C"], [["override_abi", "C", "fn_ms"]], "str")
    add("override-abi-C-under-broad", ["--override-abi", "fn_ms.*=system", "--override-abi", "fn_ms2=C"], [["override_abi", "system", "fn_ms.*"], ["override_abi", "C", "fn_ms2"]], "str")
    # options whose effect depends on the file system: a scratch directory that does not exist (nothing may create it as a side effect)
    add("macro-fallback-absent-dir", ["--clang-macro-fallback", "--clang-macro-fallback-build-dir", "@JOBDIR@/absent"],
        [["clang_macro_fallback"], ["clang_macro_fallback_build_dir", "@JOBDIR@/absent"]], "str")
    add("macro-fallback-existing-dir", ["--clang-macro-fallback", "--clang-macro-fallback-build-dir", "@WD@"],
        [["clang_macro_fallback"], ["clang_macro_fallback_build_dir", "@WD@"]], "str")
    add("depfile", ["--depfile", "@WD@/out.d", "-o", "@WD@/out.rs"], [["depfile", "@WD@/out.rs", "@WD@/out.d"]], "str")
    add("rustfmt-configuration-file", ["--rustfmt-configuration-file", "@WD@/rustfmt.toml"], [["rustfmt_configuration_file", "@WD@/rustfmt.toml"]], "str")
    add("wrap-static-fns-path", ["--wrap-static-fns", "--wrap-static-fns-path", "@WD@/wrap"], [["wrap_static_fns", True], ["wrap_static_fns_path", "@WD@/wrap"]], "str")
    add("field-attr", ["--field-attr", "S::a=#[cfg(all())]"], [["field_attribute", "S", "a", "#[cfg(all())]"]], "str")
    # values that themselves contain the KEY=VALUE separator, on either side of it
    add("field-attr-eq-in-value", ["--field-attr", 'S::b=#[doc = "the b = field"]'], [["field_attribute", "S", "b", '#[doc = "the b = field"]']], "str")
    add("field-attr-x2-same-field", ["--field-attr", 'S::a=#[doc = "z"]', "--field-attr", "S::a=#[cfg(all())]", "--field-attr", 'S::c=#[doc = "a"]'],
        [["field_attribute", "S", "a", '#[doc = "z"]'], ["field_attribute", "S", "a", "#[cfg(all())]"], ["field_attribute", "S", "c", '#[doc = "a"]']], "str")
    add("override-abi-eq-in-regex", ["--override-abi", "fn_[=a]=stdcall"], [["override_abi", "stdcall", "fn_[=a]"]], "str")
    add("module-raw-line-descending", ["--enable-cxx-namespaces", "--module-raw-line", "root::ns", "pub type Z9 = i8;", "--module-raw-line", "root::ns", "pub type M5 = i16;",
                                       "--module-raw-line", "root", "pub type Y = u8;", "--module-raw-line", "root::ns", "pub type A1 = i32;", "--module-raw-line", "root", "pub type B = u8;"],
        [["enable_cxx_namespaces"], ["module_raw_line", "root::ns", "pub type Z9 = i8;"], ["module_raw_line", "root::ns", "pub type M5 = i16;"], ["module_raw_line", "root", "pub type Y = u8;"],
         ["module_raw_line", "root::ns", "pub type A1 = i32;"], ["module_raw_line", "root", "pub type B = u8;"]], "str")
    add("clang-args", ["--", "-DFOO=1", "-I", "@WD@", "-Wno-everything"], [["clang_args", "-DFOO=1", "-I", "@WD@", "-Wno-everything"]], "str")
    add("clang-arg-single", ["--", "-DBAR"], [["clang_arg", "-DBAR"]], "str")
    return R


DEFAULT_ROW = {"name": "defaults", "flags": [], "ops": [], "domain": "one"}


def subst(x, wd, job=None):
    if isinstance(x, str):
        return x.replace("@JOBDIR@", os.path.join(wd, "jobdirs", job or "j")).replace("@WD@", wd)
    if isinstance(x, list):
        return [subst(y, wd, job) for y in x]
    return x


def new_check(tier):
    return Check("C13", tier, LEVEL,
                 "configurations = option rows (every flag with every value of its small domain), all pairs of boolean rows, "
                 "interacting pairs, hostile strings, 1..4 input headers; each executed in both directions (builder->flags->builder, "
                 "flag vs documented method) on a C and a C++ feature header; non-trivial = configuration whose bindings differ from "
                 "the default configuration's on at least one header")


def make_jobs(row, hdrs, wd, jid):
    """(roundtrip job per header, flagcmp job per header)"""
    jobs = []
    for hk, hp in hdrs.items():
        for kind in ("R", "F"):
            # @JOBDIR@ is a path that does not exist and belongs to this job alone (side effects of one job cannot help another)
            flags = subst(row["flags"], wd, f"{kind}{jid}{hk}")
            ops = subst(row["ops"], wd, f"{kind}{jid}{hk}")
            clang_tail = []
            if "--" in flags:
                i = flags.index("--")
                flags, clang_tail = flags[:i], flags[i:]
            hops = [["header", hp]] + ops
            hflags = [hp] + flags + clang_tail
            if kind == "R":
                jobs.append({"id": f"R|{jid}|{hk}", "mode": "roundtrip", "ops": hops})
            else:
                jobs.append({"id": f"F|{jid}|{hk}", "mode": "flagcmp", "flags": hflags, "ops": hops})
    return jobs


def norm_out(o):
    if o is None:
        return None
    if o.get("status") == "ok":
        return ("ok", o["text"])
    return (o.get("status"), o.get("err_kind"), o.get("err"))


def judge(ck, rowname, hk, rkind, r, default_out):
    case = f"{rkind} cfg=[{rowname}] hdr={hk}"
    det = {"row": rowname, "hdr": hk, "kind": rkind}
    if rkind == "R":
        if r["status"] == "crash":
            ck.violation(case + " reparse-exit", dict(det, why=f"flags produced by command_line_flags() were rejected by the CLI parser (exit {r.get('exit_code')})"))
            return None
        if r["status"] != "ok":
            ck.violation(case + " " + r["status"], dict(det, why=str(r.get("err"))[:300]))
            return None
        if r["flags1"] != r["flags2"]:
            ck.violation(case + " flags-not-fixpoint", dict(det, why=f"flags1={r['flags1']} flags2={r['flags2']}"))
        o1, o2 = norm_out(r.get("out1")), norm_out(r.get("out2"))
        if o1 != o2:
            ck.violation(case + " bindings-differ", dict(det, why=f"bindings from builder and from its re-parsed flags differ ({o1[0]} vs {o2[0]})"))
        return o1
    else:
        if r["status"] == "crash":
            ck.violation(case + " flag-rejected", dict(det, why=f"documented flag rejected by the CLI parser (exit {r.get('exit_code')})"))
            return None
        if r["status"] != "ok":
            ck.violation(case + " " + r["status"], dict(det, why=str(r.get("err"))[:300]))
            return None
        if r["flags_from_flags"] != r["flags_from_methods"]:
            ck.violation(case + " flag-vs-method-config", dict(det, why=f"from flags: {r['flags_from_flags']} from methods: {r['flags_from_methods']}"))
        of, om = norm_out(r["out_flags"]), norm_out(r["out_methods"])
        if of != om:
            ck.violation(case + " flag-vs-method-bindings", dict(det, why=f"bindings differ between CLI flag and documented builder method ({of[0]} vs {om[0]})"))
        return om


def combine(a, b):
    fa, ca = (a["flags"], []) if "--" not in a["flags"] else (a["flags"][:a["flags"].index("--")], a["flags"][a["flags"].index("--"):])
    fb, cb = (b["flags"], []) if "--" not in b["flags"] else (b["flags"][:b["flags"].index("--")], b["flags"][b["flags"].index("--"):])
    tail = (["--"] + ca[1:] + cb[1:]) if (ca or cb) else []
    return {"name": a["name"] + " + " + b["name"], "flags": fa + fb + tail, "ops": a["ops"] + b["ops"], "domain": "pair"}


def prepare(wd):
    hdrs = {"c": os.path.join(wd, "feat.h"), "cpp": os.path.join(wd, "feat.hpp")}
    open(hdrs["c"], "w").write(FEAT_C)
    open(hdrs["cpp"], "w").write(FEAT_CPP)
    open(os.path.join(wd, "rustfmt.toml"), "w").write("max_width = 60\n")
    os.makedirs(os.path.join(wd, "mfb"), exist_ok=True)
    for i in range(4):
        open(os.path.join(wd, f"multi{i}.h"), "w").write(f"typedef int base{i}_t;\nstruct M{i} {{ base{i}_t v; " + (f"struct M{i-1} prev; " if i else "") + "};\n")
    return hdrs


def configs(tier):
    R = rows()
    cfgs = [DEFAULT_ROW] + R
    bools = [r for r in R if r["domain"] == "bool"]
    # all pairs of boolean rows
    pairs = [combine(a, b) for a, b in itertools.combinations(bools, 2)]
    # interacting pairs (allow/block, two enum styles on the same enum, style + default style, alias styles...)
    byname = {r["name"]: r for r in R}
    inter = []
    for a, b in [("allowlist-type=Uses", "blocklist-type=S"), ("allowlist-type=U", "blocklist-type=S"),
                 ("allowlist-function=fn_a", "blocklist-type=S"), ("allowlist-item=E", "blocklist-item=gvar"),
                 ("bitfield-enum=E", "rustified-enum=E"), ("rustified-enum=E", "bitfield-enum=E"),
                 ("constified-enum-module=E", "default-enum-style=rust"), ("newtype-enum=E", "default-enum-style=bitfield"),
                 ("new-type-alias=myint", "default-alias-style=new_type_deref"), ("normal-alias=myint", "default-alias-style=new_type"),
                 ("manually-drop-union=NC|UN", "default-non-copy-union-style=bindgen_wrapper"),
                 ("opaque-type=S", "no-copy=S"), ("no-copy=S", "no-debug=S"), ("rust-target=1.76", "rust-edition=2018"),
                 ("rust-target=1.77", "generate-cstr"), ("wrap-static-fns", "wrap-static-fns-suffix=_w"),
                 ("dynamic-loading=Lib", "dynamic-link-require-all"), ("dynamic-loading=Lib", "wrap-unsafe-ops"),
                 ("enable-cxx-namespaces", "module-raw-line"), ("generate=types,methods", "ignore-functions"),
                 ("generate=functions,types", "ignore-methods"), ("ignore-functions", "ignore-methods"),
                 ("generate=types", "ignore-functions"), ("default-visibility=private", "respect-cxx-access-specs"),
                 ("override-abi", "override-abi-x2-overlap"), ("raw-line=// raw", "module-raw-line"),
                 ("clang-args", "clang-arg-single"), ("formatter=none", "disable-header-comment"),
                 ("merge-extern-blocks", "wasm-import-module-name=wmod"), ("sort-semantically", "merge-extern-blocks")]:
        inter.append(combine(byname[a], byname[b]))
    # an exception carved out of a broader pattern by a more specific option of the same family, with the default style untouched
    # (the specific one must survive the round trip on its own, not only next to --default-*-style)
    for a, b in [("new-type-alias=my.*", "normal-alias=myint"), ("new-type-alias-deref=myint", "normal-alias=myint"), ("rustified-enum=E.*", "constified-enum=E"),
                 ("bitfield-enum=F|E", "constified-enum-module=E"), ("bindgen-wrapper-union=NC|UN", "manually-drop-union=NC|UN")]:
        inter.append(combine(byname[a], byname[b]))
    if tier == "quick":
        # quick: a third of the boolean pairs, rotated by VERIF_SEED; thorough: all
        seed = int(os.environ.get("VERIF_SEED", "0") or 0)
        pairs = [p for i, p in enumerate(pairs) if (i + seed) % 4 == 0]
    return cfgs, pairs, inter


def run(ck, only=None):
    wd = ck.wd
    hdrs = prepare(wd)
    # completeness of the table against the tree: every long flag in --help and every Builder method is accounted for
    if not only:
        completeness(ck)
    cfgs, pairs, inter = configs(ck.tier)
    allc = cfgs + inter + pairs
    if ck.tier == "quick" and not only:
        ck.cap("quick tier runs a quarter of the boolean pairs (selected by VERIF_SEED); all pairs in the thorough tier")
    jobs, index = [], {}
    for i, row in enumerate(allc):
        if only and row["name"] != only:
            continue
        # pairs only on the header(s) where they matter: use both headers for single rows, C++ header for pairs
        use = hdrs if row["domain"] != "pair" or row in inter else {"cpp": hdrs["cpp"]}
        for j in make_jobs(row, use, wd, str(i)):
            jobs.append(j)
            index[j["id"]] = row
    # multi-header builders (library API only): 1..4 headers, order matters
    multi = []
    if not only or only.startswith("headers-x"):
        for n in range(1, 5):
            hs = [os.path.join(wd, f"multi{i}.h") for i in range(n)]
            name = f"headers-x{n}"
            if only and only != name:
                continue
            jid = f"R|{name}|multi"
            jobs.append({"id": jid, "mode": "roundtrip", "ops": [["header", h] for h in hs]})
            index[jid] = {"name": name, "domain": "multi"}
            jid = f"R|{name}-via-headers|multi"
            jobs.append({"id": jid, "mode": "roundtrip", "ops": [["headers"] + hs]})
            index[jid] = {"name": name + "-via-headers", "domain": "multi"}
            jid = f"F|{name}|multi"
            jobs.append({"id": jid, "mode": "flagcmp", "ops": [["header", h] for h in hs],
                         "flags": [hs[-1]] + (["--"] + sum((["-include", h] for h in hs[:-1]), []) if n > 1 else [])})
            index[jid] = {"name": name, "domain": "multi"}
    # headers that are found only along an include path (the earlier ones become `-include` arguments after the round trip)
    if not only or only.startswith("headers-via-include-path"):
        inc = os.path.join(wd, "incdir")
        os.makedirs(inc, exist_ok=True)
        open(os.path.join(inc, "first_only_in_incdir.h"), "w").write("typedef short first_t;\n")
        open(os.path.join(inc, "second_only_in_incdir.h"), "w").write("typedef first_t second_t;\n")
        mainh = os.path.join(wd, "multi_main.h")
        open(mainh, "w").write("struct UsesFirst { first_t f; };\n")
        for name, firsts in (("headers-via-include-path-1", ["first_only_in_incdir.h"]), ("headers-via-include-path-2", ["first_only_in_incdir.h", "second_only_in_incdir.h"])):
            if only and only != name:
                continue
            jid = f"R|{name}|multi"
            jobs.append({"id": jid, "mode": "roundtrip", "ops": [["header", h] for h in firsts] + [["header", mainh], ["clang_arg", "-I" + inc]]})
            index[jid] = {"name": name, "domain": "multi"}
            jid = f"F|{name}|multi"
            jobs.append({"id": jid, "mode": "flagcmp", "ops": [["header", h] for h in firsts] + [["header", mainh], ["clang_arg", "-I" + inc]],
                         "flags": [mainh, "--", "-I" + inc] + sum((["-include", h] for h in firsts), [])})
            index[jid] = {"name": name, "domain": "multi"}
    res = common.run_jobs(jobs, wd, timeout=60)
    # headers named RELATIVE to the working directory, with file patterns written for that spelling (a round trip that re-spells the
    # path - absolute, canonical - changes what the patterns match; the flag lists stay equal, only the bindings show it)
    if not only or only.startswith("relative-path"):
        sub = os.path.join(wd, "reldir")
        os.makedirs(os.path.join(sub, "inc"), exist_ok=True)
        open(os.path.join(sub, "rel_api.h"), "w").write('#include "inc/rel_dep.h"\nstruct RelApi { rel_dep_t d; };\nint rel_fn(void);\n')
        open(os.path.join(sub, "inc", "rel_dep.h"), "w").write("typedef int rel_dep_t;\nstruct RelDep { int x; };\n")
        rjobs = []
        for name, ops in (("relative-path-allowlist-file", [["header", "rel_api.h"], ["allowlist_file", "rel_api\\.h"]]),
                          ("relative-path-blocklist-file", [["header", "rel_api.h"], ["blocklist_file", "inc/rel_dep\\.h"]]),
                          ("relative-path-dot", [["header", "./rel_api.h"], ["allowlist_file", "\\./rel_api\\.h"]]),
                          ("relative-path-two-headers", [["header", "inc/rel_dep.h"], ["header", "rel_api.h"], ["allowlist_file", "rel_api\\.h"]])):
            if only and only != name:
                continue
            jid = f"R|{name}|multi"
            rjobs.append({"id": jid, "mode": "roundtrip", "ops": ops})
            index[jid] = {"name": name, "domain": "multi"}
        rres = common.run_jobs(rjobs, wd, timeout=60, cwd=sub)
        for jid, r in rres.items():
            kind, _, hk = jid.split("|")
            ck.count()
            ck.nontriv(("relpath", jid))
            o = judge(ck, index[jid]["name"], hk, kind, r, None)
            if o is not None and o[0] == "ok" and "RelApi" not in o[1] and "allowlist" in jid:
                raise common.Machinery(f"C13 relative-path case {jid} selects nothing: the pattern does not match the relative spelling")
    # the same single rows with the environment variables bindgen consults set: what the environment contributes must not be
    # folded into the configuration (a re-parsed flag list would then carry it twice)
    if not only or only.startswith("env:"):
        env = dict(common.ENV)
        cnt = os.path.join(wd, "env_counter.h")
        open(cnt, "w").write("#ifdef C13_SEEN_ONCE\n#define C13_SEEN_TWICE 1\nint c13_seen_twice(void);\n#else\n#define C13_SEEN_ONCE 1\n#endif\n")
        env["BINDGEN_EXTRA_CLANG_ARGS"] = f"-DC13_ENV=1 -include {cnt}"
        ejobs = []
        for i, row in enumerate(cfgs):
            if only and "env:" + row["name"] != only:
                continue
            if ck.tier == "quick" and not only and i % 3 != (ck.seed % 3) and row["domain"] != "bool":
                continue
            for j in make_jobs(row, hdrs, wd, "e" + str(i)):
                if j["id"].startswith("R|"):
                    j["id"] = "R|env" + j["id"][2:]
                    ejobs.append(j)
                    index[j["id"]] = {"name": "env:" + row["name"], "domain": row["domain"]}
        eres = common.run_jobs(ejobs, wd, timeout=60, env=env)
        for jid, r in eres.items():
            kind, _, hk = jid.split("|")
            ck.count()
            ck.nontriv(("env", jid))
            judge(ck, index[jid]["name"], hk, kind, r, None)
        ck.extra["round_trips_with_environment_arguments"] = len(ejobs)
    defaults = {}
    for hk in hdrs:
        d = res.get(f"R|0|{hk}")
        if d and d["status"] == "ok":
            defaults[hk] = norm_out(d["out1"])
    changed = {}
    for jid, r in res.items():
        kind, _, hk = jid.split("|")
        row = index[jid]
        ck.count()
        out = judge(ck, row["name"], hk, kind, r, defaults.get(hk))
        if out is not None and hk in defaults and out != defaults[hk]:
            changed[row["name"]] = True
        if kind == "R" and r.get("status") == "ok":
            ck.sample({"cfg": row["name"], "flags": r["flags1"][:12]}, limit=5)
    if only:
        return
    for name in changed:
        ck.nontriv(name)
    inert = sorted(r["name"] for r in cfgs[1:] if r["name"] not in changed)
    ck.extra["configurations"] = len(allc) + 8
    ck.extra["rows"] = len(cfgs) - 1
    ck.extra["bool_pairs"] = len(pairs)
    ck.extra["interacting_pairs"] = len(inter)
    ck.extra["rows_flag_list_only"] = inert
    common.guard(len(changed) >= 100, f"C13 vacuity: only {len(changed)} configurations change the bindings")
    ck.assume("flag<->method table written by hand from `bindgen --help` and the Builder documentation; options with "
              "as_args: ignore (callbacks, header_contents, rustfmt path) cannot be expressed as flags and are outside the claim")


# flags that exist only on the command line (no builder state) or are deliberately outside the table
CLI_ONLY = {"output", "verbose", "dump-preprocessed-input", "generate-shell-completions", "experimental", "version", "help",
            "no-rustfmt-bindings",  # deprecated alias of --formatter
            "prefix-link-name", "with-derive-custom", "with-derive-custom-struct", "with-derive-custom-enum", "with-derive-custom-union",
            "with-attribute-custom", "with-attribute-custom-struct", "with-attribute-custom-enum", "with-attribute-custom-union",
            "emit-clang-ast", "emit-ir"}  # the last two print to stdout; the custom-derive family are CLI-side callbacks
API_ONLY = {"command_line_flags", "header_contents", "parse_callbacks", "with_rustfmt", "rustfmt_bindings", "emit_clang_ast", "emit_ir",
            "header"}


def completeness(ck):
    helptext = common.sh([common.CLI, "--help"]).stdout.decode()
    flags = set(re.findall(r"^\s+(?:-\w, )?--([A-Za-z0-9_-]+)", helptext, re.M))
    used = set()
    for r in rows():
        for f in r["flags"]:
            if f.startswith("--") and len(f) > 2:
                used.add(f[2:])
    missing = flags - used - CLI_ONLY
    common.guard(not missing, f"C13 table incomplete: CLI flags without a row: {sorted(missing)}")
    src = open(os.path.join(common.REPO, "bindgen", "options", "mod.rs")).read()
    methods = set(re.findall(r"pub fn (\w+)", src))
    usedm = set(op[0] for r in rows() for op in r["ops"]) | {"headers"}
    missing_m = methods - usedm - API_ONLY
    common.guard(not missing_m, f"C13 table incomplete: Builder methods without a row: {sorted(missing_m)}")
    ck.extra["cli_flags_in_help"] = len(flags)
    ck.extra["builder_methods"] = len(methods)


def replay(ck, case, detail):
    n0 = len(ck.violations)
    run(ck, only=detail["row"])
    return not any(c == case for c, _ in ck.violations[n0:])
