"""Function-signature generator (C04, C16): a type is described by its scalar *leaves*; both the C definition and the
Rust caller fold the leaves of every argument into a 64-bit FNV-1a hash, and every leaf of the result is derived
from that hash, so an argument that does not arrive intact or a result that does not come back intact changes the
transcript. Struct shapes cross the register/memory classification boundaries of the SysV x86-64 ABI."""

# leaf kinds: (C type, Rust cast type for folding, signed?, value list as C literals, same as Rust literals)
LEAF = {
    "char": ("char", "i64", True, ["-1", "97", "-128", "127"], ["-1i64", "97i64", "-128i64", "127i64"]),
    "schar": ("signed char", "i64", True, ["-2", "5", "-128", "127"], ["-2i64", "5i64", "-128i64", "127i64"]),
    "uchar": ("unsigned char", "u64", False, ["255", "0", "128", "7"], ["255u64", "0u64", "128u64", "7u64"]),
    "short": ("short", "i64", True, ["-3", "32767", "-32768", "9"], ["-3i64", "32767i64", "-32768i64", "9i64"]),
    "ushort": ("unsigned short", "u64", False, ["65535", "1", "32768", "11"], ["65535u64", "1u64", "32768u64", "11u64"]),
    "int": ("int", "i64", True, ["-4", "2147483647", "(-2147483647 - 1)", "13"], ["-4i64", "2147483647i64", "-2147483648i64", "13i64"]),
    "uint": ("unsigned", "u64", False, ["4294967295u", "2u", "2147483648u", "17u"], ["4294967295u64", "2u64", "2147483648u64", "17u64"]),
    "long": ("long", "i64", True, ["-5L", "9223372036854775807L", "(-9223372036854775807L - 1)", "19L"], ["-5i64", "9223372036854775807i64", "i64::MIN", "19i64"]),
    "ulong": ("unsigned long", "u64", False, ["18446744073709551615ul", "3ul", "9223372036854775808ul", "23ul"], ["u64::MAX", "3u64", "9223372036854775808u64", "23u64"]),
    "llong": ("long long", "i64", True, ["-6LL", "9223372036854775807LL", "(-9223372036854775807LL - 1)", "29LL"], ["-6i64", "9223372036854775807i64", "i64::MIN", "29i64"]),
    "ullong": ("unsigned long long", "u64", False, ["18446744073709551615ull", "4ull", "9223372036854775808ull", "31ull"], ["u64::MAX", "4u64", "9223372036854775808u64", "31u64"]),
    "float": ("float", "f64", None, ["1.5f", "-2.25f", "16777216.0f", "0.0f"], ["1.5f64", "-2.25f64", "16777216.0f64", "0.0f64"]),
    "double": ("double", "f64", None, ["2.5", "-1e100", "4503599627370497.0", "0.0"], ["2.5f64", "-1e100f64", "4503599627370497.0f64", "0.0f64"]),
    "bool": ("_Bool", "u64", False, ["1", "0", "1", "0"], ["true", "false", "true", "false"]),
    "enum": ("enum fe", "u64", False, ["FE_B", "FE_A", "FE_C", "FE_B"], ["70000u64", "0u64", "4000000000u64", "70000u64"]),
    "tdint": ("td_int", "i64", True, ["-7", "77", "-777", "7777"], ["-7i64", "77i64", "-777i64", "7777i64"]),
}
# typedef NAMES that bindgen (and C libraries) treat specially: the <stdint.h> / <stddef.h> families with the definitions the host's
# libc really gives them: name -> (signed?, bits on x86_64-unknown-linux-gnu)
STD_NAMES = {
    "int8_t": (True, 8), "uint8_t": (False, 8), "int16_t": (True, 16), "uint16_t": (False, 16), "int32_t": (True, 32), "uint32_t": (False, 32),
    "int64_t": (True, 64), "uint64_t": (False, 64),
    "int_least8_t": (True, 8), "uint_least8_t": (False, 8), "int_least16_t": (True, 16), "uint_least16_t": (False, 16),
    "int_least32_t": (True, 32), "uint_least32_t": (False, 32), "int_least64_t": (True, 64), "uint_least64_t": (False, 64),
    "int_fast8_t": (True, 8), "uint_fast8_t": (False, 8), "int_fast16_t": (True, 64), "uint_fast16_t": (False, 64),
    "int_fast32_t": (True, 64), "uint_fast32_t": (False, 64), "int_fast64_t": (True, 64), "uint_fast64_t": (False, 64),
    "intmax_t": (True, 64), "uintmax_t": (False, 64), "intptr_t": (True, 64), "uintptr_t": (False, 64),
    "size_t": (False, 64), "ptrdiff_t": (True, 64), "wchar_t": (True, 32), "ssize_t": (True, 64),
}
_BY_WIDTH = {(True, 8): "schar", (False, 8): "uchar", (True, 16): "short", (False, 16): "ushort", (True, 32): "int", (False, 32): "uint",
             (True, 64): "long", (False, 64): "ulong"}
for _n, (_s, _b) in STD_NAMES.items():
    _base = LEAF[_BY_WIDTH[(_s, _b)]]
    LEAF["sd_" + _n] = (_n, _base[1], _base[2], _base[3], _base[4])
PRELUDE_C = ("#include <stdint.h>\n#include <stddef.h>\ntypedef long ssize_t;\n"
             "enum fe { FE_A, FE_B = 70000, FE_C = 4000000000u };\ntypedef int td_int;\ntypedef int (*cb_t)(int);\n")


class Ty:
    """A parameter/result type: `decl(name)` C declarator, `leaves` = [(C access suffix, Rust access suffix, leaf kind)],
    mode in value | ptr | cptr | pptr | arr | carr | cb | struct."""

    def __init__(self, key, mode, leaves, ctype=None, support="", rust_ty=None):
        self.key, self.mode, self.leaves, self.ctype, self.support, self.rust_ty = key, mode, leaves, ctype, support, rust_ty

    def decl(self, name):
        if self.mode in ("value", "struct"):
            return f"{self.ctype} {name}"
        if self.mode == "ptr":
            return f"{self.ctype} *{name}"
        if self.mode == "cptr":
            return f"const {self.ctype} *{name}"
        if self.mode == "pptr":
            return f"{self.ctype} **{name}"
        if self.mode == "arr":
            return f"{self.ctype} {name}[3]"
        if self.mode == "carr":
            return f"const {self.ctype} {name}[]"
        if self.mode == "cb":
            return f"cb_t {name}"
        raise ValueError(self.mode)


def scalar_types():
    return [Ty(k, "value", [("", "", k)], ctype=LEAF[k][0]) for k in LEAF]


def struct_type(key, fields):
    """fields: [(name, leaf kind, array len or 0)]"""
    body = " ".join(f"{LEAF[k][0]} {n}{'[%d]' % a if a else ''};" for n, k, a in fields)
    leaves = []
    for n, k, a in fields:
        if a:
            for i in range(a):
                leaves.append((f".{n}[{i}]", f".{n}[{i}]", k))
        else:
            leaves.append((f".{n}", f".{n}", k))
    return Ty(key, "struct", leaves, ctype=f"struct {key}", support=f"struct {key} {{ {body} }};")


def struct_types():
    S = []
    S.append(struct_type("s1c", [("a", "char", 0)]))
    S.append(struct_type("s2s", [("a", "short", 0)]))
    S.append(struct_type("s3c", [("a", "uchar", 3)]))
    S.append(struct_type("s4i", [("a", "int", 0)]))
    S.append(struct_type("s4f", [("a", "float", 0)]))
    S.append(struct_type("s8ii", [("a", "int", 0), ("b", "int", 0)]))
    S.append(struct_type("s8ff", [("a", "float", 0), ("b", "float", 0)]))
    S.append(struct_type("s8d", [("a", "double", 0)]))
    S.append(struct_type("s8if", [("a", "int", 0), ("b", "float", 0)]))
    S.append(struct_type("s9", [("a", "llong", 0), ("b", "char", 0)]))
    S.append(struct_type("s12", [("a", "int", 3)]))
    S.append(struct_type("s12f", [("a", "float", 3)]))
    S.append(struct_type("s16ll", [("a", "llong", 0), ("b", "llong", 0)]))
    S.append(struct_type("s16dd", [("a", "double", 0), ("b", "double", 0)]))
    S.append(struct_type("s16ld", [("a", "llong", 0), ("b", "double", 0)]))
    S.append(struct_type("s16dl", [("a", "double", 0), ("b", "long", 0)]))
    S.append(struct_type("s16fi", [("a", "float", 2), ("b", "int", 2)]))
    S.append(struct_type("s17", [("a", "llong", 2), ("b", "char", 0)]))
    S.append(struct_type("s24", [("a", "double", 3)]))
    S.append(struct_type("s32", [("a", "llong", 4)]))
    S.append(struct_type("s33", [("a", "llong", 4), ("b", "uchar", 0)]))
    S.append(struct_type("s64", [("a", "int", 16)]))
    S.append(struct_type("smix", [("a", "char", 0), ("b", "double", 0), ("c", "short", 0), ("d", "float", 0)]))
    return S


def pointer_types():
    P = []
    for k in ("int", "char", "double", "ullong"):
        P.append(Ty(f"p_{k}", "ptr", [("", "", k)], ctype=LEAF[k][0]))
        P.append(Ty(f"cp_{k}", "cptr", [("", "", k)], ctype=LEAF[k][0]))
    P.append(Ty("pp_int", "pptr", [("", "", "int")], ctype="int"))
    P.append(Ty("arr_int", "arr", [("[0]", "[0]", "int"), ("[1]", "[1]", "int"), ("[2]", "[2]", "int")], ctype="int"))
    P.append(Ty("carr_char", "carr", [("[0]", "[0]", "char"), ("[1]", "[1]", "char")], ctype="char"))
    P.append(Ty("cb", "cb", [("", "", "int")], ctype="cb_t"))
    s = struct_type("s16ld", [("a", "llong", 0), ("b", "double", 0)])
    P.append(Ty("p_s16ld", "ptr", s.leaves, ctype="struct s16ld"))
    P.append(Ty("cp_s16ld", "cptr", s.leaves, ctype="struct s16ld"))
    return P


def c_leaf_fold(expr, kind):
    cty, cast, signed, _, _ = LEAF[kind]
    if signed is None:
        return f"{{ double d_ = (double)({expr}); unsigned long long u_; memcpy(&u_, &d_, 8); fold(&h, u_); }}"
    if signed:
        return f"fold(&h, (unsigned long long)(long long)({expr}));"
    return f"fold(&h, (unsigned long long)({expr}));"


def rust_leaf_fold(expr, kind):
    cty, cast, signed, _, _ = LEAF[kind]
    if signed is None:
        return f"fold(&mut h, (({expr}) as f64).to_bits());"
    if kind == "bool":
        return f"fold(&mut h, ({expr}) as u64);"
    if signed:
        return f"fold(&mut h, (({expr}) as i64) as u64);"
    return f"fold(&mut h, ({expr}) as u64);"


def c_result_leaf(kind, j):
    cty = LEAF[kind][0]
    if LEAF[kind][2] is None:
        return f"({cty})((h >> {j}) & 0xffff)"
    if kind == "bool":
        return f"(_Bool)((h >> {j}) & 1)"
    if kind == "enum":
        return f"((h >> {j}) & 1) ? FE_B : FE_C"
    return f"({cty})(h >> {j})"


def rust_result_leaf_check(expr, kind, j):
    """Rust boolean expression: leaf `expr` of the returned value equals the derivation from h."""
    if LEAF[kind][2] is None:
        return f"(({expr}) as f64) == (((h >> {j}) & 0xffff) as f64)"
    if kind == "bool":
        return f"(({expr}) as u64) == ((h >> {j}) & 1)"
    if kind == "enum":
        return f"(({expr}) as u64) == (if (h >> {j}) & 1 == 1 {{ 70000u64 }} else {{ 4000000000u64 }})"
    bits = {"char": 8, "schar": 8, "uchar": 8, "short": 16, "ushort": 16, "int": 32, "uint": 32, "tdint": 32}.get(kind, STD_NAMES[kind[3:]][1] if kind.startswith("sd_") else 64)
    mask = (1 << bits) - 1
    if LEAF[kind][2]:
        return f"((({expr}) as i64) as u64) & {mask}u64 == (h >> {j}) & {mask}u64"
    return f"(({expr}) as u64) == (h >> {j}) & {mask}u64"


class Fn:
    def __init__(self, name, ret, params, variadic=False, abi=""):
        self.name, self.ret, self.params, self.variadic, self.abi = name, ret, params, variadic, abi

    def cid(self):
        return f"{self.abi + ' ' if self.abi else ''}{self.ret.key if self.ret else 'void'} f({', '.join(p.key for p in self.params)}{', ...' if self.variadic else ''})"

    def proto(self):
        ps = ", ".join(p.decl(f"a{i}") for i, p in enumerate(self.params)) or "void"
        if self.variadic:
            ps += ", ..."
        r = self.ret.decl("").strip() if self.ret else "void"
        attr = f"__attribute__(({self.abi})) " if self.abi else ""
        return f"{attr}{r} {self.name}({ps})"

    def basis(self):
        """FNV basis salted with the function's own C name: a binding that reaches another function's symbol is observable."""
        import zlib
        return 1469598103934665603 ^ ((zlib.crc32(self.name.encode()) * 0x9E3779B97F4A7C15) & 0xFFFFFFFFFFFFFFFF)

    def c_def(self):
        """Definition: fold every argument leaf, store the hash in g_hash, derive the result from it."""
        body = [f"unsigned long long h = {self.basis()}ull;"]
        for i, p in enumerate(self.params):
            a = f"a{i}"
            for (cs, _, k) in p.leaves:
                if p.mode in ("value", "struct"):
                    body.append(c_leaf_fold(f"{a}{cs}", k))
                elif p.mode in ("ptr", "cptr"):
                    body.append(c_leaf_fold(f"(*{a}){cs}", k))
                elif p.mode == "pptr":
                    body.append(c_leaf_fold(f"(**{a}){cs}", k))
                elif p.mode in ("arr", "carr"):
                    body.append(c_leaf_fold(f"{a}{cs}", k))
                elif p.mode == "cb":
                    body.append(c_leaf_fold(f"{a}(41)", k))
        if self.variadic:
            body.append("{ va_list ap; va_start(ap, a%d); fold(&h, (unsigned long long)(long long)va_arg(ap, int)); { double d_ = va_arg(ap, double); unsigned long long u_; memcpy(&u_, &d_, 8); fold(&h, u_); } va_end(ap); }" % (len(self.params) - 1))
        body.append("g_hash = h;")
        if self.ret:
            r = self.ret
            if r.mode == "value":
                body.append(f"return {c_result_leaf(r.leaves[0][2], 0)};")
            elif r.mode == "struct":
                body.append(f"{{ {r.ctype} r_; memset(&r_, 0, sizeof r_);")
                for j, (cs, _, k) in enumerate(r.leaves):
                    body.append(f"r_{cs} = {c_result_leaf(k, j)};")
                body.append("return r_; }")
            elif r.mode in ("ptr", "cptr"):
                body.append(f"{{ static {r.ctype} slot_; memset(&slot_, 0, sizeof slot_);")
                for j, (cs, _, k) in enumerate(r.leaves):
                    body.append(f"slot_{cs} = {c_result_leaf(k, j)};")
                body.append("return &slot_; }")
        return self.proto() + " {\n  " + "\n  ".join(body) + "\n}"


C_HELPERS = r'''
#include <string.h>
#include <stdarg.h>
unsigned long long g_hash;
static void fold(unsigned long long *h, unsigned long long v) {
    for (int i = 0; i < 8; i++) { *h ^= (v >> (8 * i)) & 0xff; *h *= 1099511628211ull; }
}
'''

RUST_HELPERS = r'''
#![allow(warnings)]
mod b { include!("@B@"); }
fn fold(h: &mut u64, v: u64) { for i in 0..8 { *h ^= (v >> (8 * i)) & 0xff; *h = h.wrapping_mul(1099511628211u64); } }
extern "C" fn cb_impl(x: ::std::os::raw::c_int) -> ::std::os::raw::c_int { x.wrapping_mul(3) + 1 }
'''
