"""C10 - blocklisted items are referenced but never defined; opaque types are exact blobs.

Explored: every inner record of a reduced gen_c family (<=2 members x {plain, packed, aligned(16), pack(2)} x
struct/union) made (a) blocklisted, (b) opaque by option, (c) opaque by annotation, (d) opaque AND blocklisted,
and used as member, array element, pointee, parameter/result and typedef target of a container; plus same-named
struct/function/variable triples for the kind-specific blocklists. Oracle: syn inventory (no definition, every use
still names it / exact blob), rustc with a trait-less stand-in of the C size and alignment supplied as a raw line,
C-vs-Rust layout numbers of the container, and the vouching callback.
"""
import os
import re

from . import common, gen_c, probes
from .common import Check

LEVEL = "exploration"
BATCH = 150
INNER_ATOMS = ["char", "int", "llong", "float", "double", "ptr", "arr3c", "nest5", "anons", "bfA", "enum", "ldouble"]


class Holder:
    """Container `Kn` using inner record `Kn_X` (X = BL or OP) in every position."""

    def __init__(self, n, inner, suffix, annotate=False):
        self.tag = f"K{n}"
        self.kind = "struct"
        self.inner = inner
        inner.tag = f"K{n}_{suffix}"
        self.suffix = suffix
        self.annotate = annotate
        self.cid = f"holder[{suffix}{'@' if annotate else ''}]<{inner.cid}>"
        self.atoms, self.rattr, self.mattr = [], "plain", ""

    def c_name(self):
        return f"struct {self.tag}"

    def fields(self):
        return [("pre", "sint"), ("m", "agg"), ("after", "sint"), ("p", "ptr"), ("arr", "arr"), ("td", "agg")]

    def source(self):
        i = self.inner
        n = i.c_name()
        src = i.source()
        if self.annotate:
            # the annotation goes on the record declaration (last line of the inner source)
            lines = src.split("\n")
            k = max(idx for idx, l in enumerate(lines) if re.match(r"(#pragma.*\n)?(struct|union)\b", l) or l.startswith("struct") or l.startswith("union"))
            lines.insert(k, "/** <div rustbindgen opaque></div> */")
            src = "\n".join(lines)
        t = self.tag
        return (f"{src}\ntypedef {n} {t}_td;\nstruct {t} {{ char pre; {n} m; int after; {n} *p; {n} arr[2]; {t}_td td; }};\n"
                f"{n} *{t}_f({n} *a, const {n} *b);\nextern {n} *{t}_gp;")


def family(tier, seed):
    inner = gen_c.enumerate_records(2, atoms=INNER_ATOMS, rattrs=["plain", "packed", "al16", "pp2"])
    if tier == "quick":
        inner = [c for k, c in enumerate(inner) if len(c.atoms) == 1 or (k + seed) % 5 == 0]
    return inner


def new_check(tier):
    return Check("C10", tier, LEVEL,
                 "cases = inner records (<=2 members over 12 atoms x 4 attributes x struct/union) x {blocklist-type, opaque-type, opaque "
                 "annotation, opaque+blocklisted} each used as member / array element / pointee / parameter / typedef target; same-name "
                 "struct/function/variable triples x kind-specific blocklists; non-trivial = every case (each has a use in 5 positions)")


def defined_names(inv):
    names = {}

    def walk(items):
        for it in items:
            if it["kind"] == "mod":
                walk(it["items"])
            elif it["kind"] == "foreign_mod":
                for fi in it["items"]:
                    names.setdefault(fi["name"], []).append("foreign_" + fi["kind"])
            elif it.get("name"):
                if it["kind"] == "struct" and it.get("tuple") and it["name"].endswith("_BL"):
                    continue  # the harness's own stand-in (raw line)
                names.setdefault(it["name"], []).append(it["kind"])
    walk(inv["items"])
    return names


def run_mode(ck, mode, inner, only):
    import copy
    wd = os.path.join(ck.wd, mode)
    holders = []
    for n, c in enumerate(inner):
        c2 = copy.deepcopy(c)
        suffix = "BL" if mode in ("blocklist", "vouch", "opaque+blocklist") else "OP"
        holders.append(Holder(n + 1, c2, suffix, annotate=(mode == "annotation")))
    if only:
        holders = [h for h in holders if h.cid == only.get("cid")]
    flags = {"blocklist": ["--blocklist-type", r"K\d+_BL"], "vouch": ["--blocklist-type", r"K\d+_BL"],
             "opaque": ["--opaque-type", r"K\d+_OP"], "annotation": [],
             "opaque+blocklist": ["--opaque-type", r"K\d+_.*", "--blocklist-type", r"K\d+_BL"]}[mode]
    flags = flags + ["--with-derive-default", "--with-derive-hash", "--with-derive-partialeq"]
    standin = mode in ("blocklist", "vouch", "opaque+blocklist")

    def raw_lines(name, cases, ctr):
        if not standin:
            return []
        out = []
        for h in cases:
            t = ctr.get(h.inner.tag, {}).get("T")
            if t:
                derives = "#[derive(Debug, Default, Copy, Clone, Hash, PartialEq)] " if mode == "vouch" and t[0] <= 32 else ("#[derive(Copy, Clone)] " if mode == "vouch" else "")
                out.append(f"{derives}#[repr(C, align({t[1]}))] pub struct {h.inner.tag}(pub [u8; {t[0]}]);")
        return out

    batches = [(f"{mode.replace('+', '_')}{i // BATCH}", holders[i:i + BATCH]) for i in range(0, len(holders), BATCH)]
    res, gens = probes.run_batches_ex(batches, wd, flags, raw_lines_fn=raw_lines, extra_c_cases_fn=lambda cs: [h.inner for h in cs],
                                      callbacks={"log": False, "vouch": True} if mode == "vouch" else None)
    for name, hs in batches:
        g, ctr = gens[name]
        if g["status"] != "ok":
            continue
        names = defined_names(g["inventory"])
        idx = probes.index_inventory(g["inventory"])
        for h in hs:
            ck.count()
            ck.nontriv(h.cid + mode)
            r = res[h.tag]
            det = {"cid": h.cid, "mode": mode, "source": h.source()}
            case = f"{h.cid} mode={mode}"
            probs = []
            it = h.inner.tag
            if standin:
                # the only definition of the blocklisted name may be the harness's raw line (not in the token inventory: raw lines are text)
                if it in names:
                    probs.append(f"blocklisted type {it} is defined in the bindings as {names[it]}")
                hold = idx.get(h.tag)
                if hold is None:
                    probs.append("container not emitted")
                else:
                    ftypes = {f["name"]: f["ty"].replace(" ", "") for f in hold["fields"]}
                    if ftypes.get("m") != it or it not in ftypes.get("p", "") or it not in ftypes.get("arr", ""):
                        probs.append(f"uses of the blocklisted type no longer name it: {ftypes}")
                    if mode == "vouch":
                        if "Copy" not in hold["derives"] or ("Debug" not in hold["derives"] and ctr.get(it, {}).get("T", (99,))[0] <= 32):
                            probs.append(f"derives are withheld although the callback vouches for the blocklisted type: {hold['derives']}")
            else:
                o = idx.get(it)
                if o is None:
                    probs.append(f"opaque type {it} is not emitted")
                else:
                    fn = [f["name"] for f in o["fields"]]
                    if [x for x in fn if x != "_bindgen_align"] not in (["_bindgen_opaque_blob"], ["_address"]):
                        probs.append(f"opaque type exposes fields {fn}")
                    for impl in g["inventory"]["items"]:
                        if impl["kind"] == "impl" and impl["self_ty"] == it and impl.get("trait") is None:
                            probs.append("opaque type has an inherent impl (accessors)")
            if r["rust_error"]:
                probs.append("rustc rejects the bindings" + (" with a trait-less stand-in of the right size and alignment" if standin else "") + ": " + " | ".join(r["rust_error"])[:300])
            elif r["r"] and r["c"]:
                if r["r"]["T"] != r["c"]["T"]:
                    probs.append(f"container size/align C={r['c']['T']} Rust={r['r']['T']}")
                for f, v in r["c"]["F"].items():
                    rv = r["r"]["F"].get(f)
                    if rv and rv != v:
                        probs.append(f"container member {f}: C={v} Rust={rv}")
            if probs:
                from .c01 import structure_class
                kinds = "+".join(sorted({re.sub(r"K\d+", "K", p.split(":")[0].split(" C=")[0])[:40] for p in probs}))
                ck.violation(case, dict(det, predicate=f"{mode}|{kinds}|{structure_class(h.inner)}", why="; ".join(probs)[:700]))
    return len(holders)


def same_name_cases(ck, only):
    """Kind-specific blocklists must not leak across kinds: a struct tag, a function and a variable share one name."""
    wd = os.path.join(ck.wd, "samename")
    os.makedirs(wd, exist_ok=True)
    orders = {
        "struct-first": "struct probe { int x; };\nint probe(struct probe *p);\nextern int other;\nstruct keep { struct probe *p; };\nint keepf(void);\n",
        "fn-first": "struct probe;\nint probe(struct probe *p);\nstruct probe { int x; };\nstruct keep { struct probe *p; };\nint keepf(void);\n",
        "var-same": "struct item { int x; };\nextern struct item item;\nint use_item(struct item *i);\n",
    }
    flagsets = {"blocklist-function": (["--blocklist-function", "probe"], {"fn:probe": False, "struct:probe": True}),
                "blocklist-type": (["--blocklist-type", "probe"], {"fn:probe": True, "struct:probe": False}),
                "blocklist-item": (["--blocklist-item", "probe"], {"fn:probe": False, "struct:probe": False}),
                "blocklist-var": (["--blocklist-var", "item"], {"var:item": False, "struct:item": True}),
                "blocklist-type-item": (["--blocklist-type", "item"], {"var:item": True, "struct:item": False})}
    jobs = []
    for oname, src in orders.items():
        hp = os.path.join(wd, oname + ".h")
        open(hp, "w").write(src)
        for fname, (flags, exp) in flagsets.items():
            if ("item" in fname.split("-")[-1] or fname == "blocklist-var") != (oname == "var-same") and fname not in ("blocklist-item",):
                continue
            if fname == "blocklist-item" and oname == "var-same":
                continue
            jobs.append({"id": f"{oname}|{fname}", "args": [hp] + flags, "inventory": True, "text": False})
    res = common.run_jobs(jobs, wd)
    for jid, r in res.items():
        oname, fname = jid.split("|")
        ck.count()
        ck.nontriv(jid)
        if only and only.get("cid") != jid:
            continue
        if r["status"] != "ok":
            ck.violation(f"same-name {jid} generation-failed", {"cid": jid, "mode": "samename", "why": str(r)[:200]})
            continue
        names = defined_names(r["inventory"])
        exp = flagsets[fname][1]
        for key, present in exp.items():
            kind, nm = key.split(":")
            have = {"fn": "foreign_fn" in names.get(nm, []), "struct": "struct" in names.get(nm, []), "var": "foreign_static" in names.get(nm, [])}[kind]
            if have != present:
                ck.violation(f"same-name {jid} {key}", {"cid": jid, "mode": "samename",
                             "why": f"with {flagsets[fname][0]} the {kind} `{nm}` should be {'present' if present else 'absent'} but is {'present' if have else 'absent'} (defined: {names.get(nm)})"})


def run(ck, only=None):
    inner = family(ck.tier, ck.seed)
    total = 0
    for mode in ("blocklist", "vouch", "opaque", "annotation", "opaque+blocklist"):
        if only and only.get("mode") not in (mode,):
            continue
        fam = inner if mode in ("blocklist", "opaque") or ck.tier == "thorough" else [c for k, c in enumerate(inner) if k % 4 == 0]
        total += run_mode(ck, mode, fam, only)
    if not only or only.get("mode") == "samename":
        same_name_cases(ck, only)
    ck.sample({"mode": "blocklist", "inner": inner[5].cid, "flags": ["--blocklist-type", "K\\d+_BL"], "stand-in": "#[repr(C, align(A))] pub struct Kn_BL(pub [u8; S]);"})
    ck.extra["holders"] = total
    ck.assume("the stand-in definition is supplied as a raw line with the size and alignment the C compiler reports; it implements no trait "
              "(except in the vouching mode), so a derive that goes through the blocklisted type fails to compile")


def replay(ck, case, detail):
    n0 = len(ck.violations)
    run(ck, only=detail)
    return not any(c == case for c, _ in ck.violations[n0:])
