"""C10 - blocklisted items are referenced but never defined; opaque types are exact blobs.

Explored: every inner record of a reduced gen_c family (<=2 members x {plain, packed, aligned(16), pack(2)} x
struct/union) made (a) blocklisted, (b) opaque by option, (c) opaque by annotation, (d) opaque AND blocklisted,
and used as member, array element, pointee, parameter/result and typedef target of a container; plus same-named
struct/function/variable triples for the kind-specific blocklists. Oracle: syn inventory (no definition, every use
still names it / exact blob), rustc with a trait-less stand-in of the C size and alignment supplied as a raw line,
C-vs-Rust layout numbers of the container, and the vouching callback.
"""
import os
import re

from . import common, gen_c, probes
from .common import Check

LEVEL = "exploration"
BATCH = 150
INNER_ATOMS = ["char", "int", "llong", "float", "double", "ptr", "arr3c", "nest5", "anons", "bfA", "enum", "ldouble"]


class Holder:
    """Container `Kn` using inner record `Kn_X` (X = BL or OP) in every position."""

    def __init__(self, n, inner, suffix, annotate=False):
        self.tag = f"K{n}"
        self.kind = "struct"
        self.inner = inner
        inner.tag = f"K{n}_{suffix}"
        self.suffix = suffix
        self.annotate = annotate
        self.cid = f"holder[{suffix}{'@' if annotate else ''}]<{inner.cid}>"
        self.atoms, self.rattr, self.mattr = [], "plain", ""

    def c_name(self):
        return f"struct {self.tag}"

    def fields(self):
        return [("pre", "sint"), ("m", "agg"), ("after", "sint"), ("p", "ptr"), ("arr", "arr"), ("td", "agg")]

    def source(self):
        i = self.inner
        n = i.c_name()
        src = i.source()
        if self.annotate:
            # the annotation goes on the record declaration (last line of the inner source)
            lines = src.split("\n")
            k = max(idx for idx, l in enumerate(lines) if re.match(r"(#pragma.*\n)?(struct|union)\b", l) or l.startswith("struct") or l.startswith("union"))
            lines.insert(k, "/** <div rustbindgen opaque></div> */")
            src = "\n".join(lines)
        t = self.tag
        return (f"{src}\ntypedef {n} {t}_td;\nstruct {t} {{ char pre; {n} m; int after; {n} *p; {n} arr[2]; {t}_td td; }};\n"
                f"{n} *{t}_f({n} *a, const {n} *b);\nextern {n} *{t}_gp;\n"
                # later items that refer to the HOLDER (it is then queued more than once by the analyses)
                f"struct {t}_outer {{ struct {t} held; int z; }};\nstruct {t} *{t}_again(struct {t}_outer *o);")


def family(tier, seed):
    inner = gen_c.enumerate_records(2, atoms=INNER_ATOMS, rattrs=["plain", "packed", "al16", "pp2"])
    if tier == "quick":
        inner = [c for k, c in enumerate(inner) if len(c.atoms) == 1 or (k + seed) % 5 == 0]
    return inner


def new_check(tier):
    return Check("C10", tier, LEVEL,
                 "cases = inner records (<=2 members over 12 atoms x 4 attributes x struct/union) x {blocklist-type, opaque-type, opaque "
                 "annotation, opaque+blocklisted} each used as member / array element / pointee / parameter / typedef target; same-name "
                 "struct/function/variable triples x kind-specific blocklists; non-trivial = every case (each has a use in 5 positions)")


def defined_names(inv):
    names = {}

    def walk(items):
        for it in items:
            if it["kind"] == "mod":
                walk(it["items"])
            elif it["kind"] == "foreign_mod":
                for fi in it["items"]:
                    names.setdefault(fi["name"], []).append("foreign_" + fi["kind"])
            elif it.get("name"):
                if it["kind"] == "struct" and it.get("tuple") and it["name"].endswith("_BL"):
                    continue  # the harness's own stand-in (raw line)
                names.setdefault(it["name"], []).append(it["kind"])
    walk(inv["items"])
    return names


def run_mode(ck, mode, inner, only):
    import copy
    wd = os.path.join(ck.wd, mode)
    holders = []
    for n, c in enumerate(inner):
        c2 = copy.deepcopy(c)
        suffix = "BL" if mode in ("blocklist", "vouch", "opaque+blocklist") else "OP"
        holders.append(Holder(n + 1, c2, suffix, annotate=(mode == "annotation")))
    if only:
        holders = [h for h in holders if h.cid == only.get("cid")]
    flags = {"blocklist": ["--blocklist-type", r"K\d+_BL"], "vouch": ["--blocklist-type", r"K\d+_BL"],
             "opaque": ["--opaque-type", r"K\d+_OP"], "annotation": [],
             "opaque+blocklist": ["--opaque-type", r"K\d+_.*", "--blocklist-type", r"K\d+_BL"]}[mode]
    flags = flags + ["--with-derive-default", "--with-derive-hash", "--with-derive-partialeq"]
    standin = mode in ("blocklist", "vouch", "opaque+blocklist")

    def raw_lines(name, cases, ctr):
        if not standin:
            return []
        out = []
        for h in cases:
            t = ctr.get(h.inner.tag, {}).get("T")
            if t:
                derives = "#[derive(Debug, Default, Copy, Clone, Hash, PartialEq)] " if mode == "vouch" and t[0] <= 32 else ("#[derive(Copy, Clone)] " if mode == "vouch" else "")
                out.append(f"{derives}#[repr(C, align({t[1]}))] pub struct {h.inner.tag}(pub [u8; {t[0]}]);")
        return out

    batches = [(f"{mode.replace('+', '_')}{i // BATCH}", holders[i:i + BATCH]) for i in range(0, len(holders), BATCH)]
    res, gens = probes.run_batches_ex(batches, wd, flags, raw_lines_fn=raw_lines, extra_c_cases_fn=lambda cs: [h.inner for h in cs],
                                      callbacks={"log": False, "vouch": True} if mode == "vouch" else None)
    for name, hs in batches:
        g, ctr = gens[name]
        if g["status"] != "ok":
            continue
        names = defined_names(g["inventory"])
        idx = probes.index_inventory(g["inventory"])
        for h in hs:
            ck.count()
            ck.nontriv(h.cid + mode)
            r = res[h.tag]
            det = {"cid": h.cid, "mode": mode, "source": h.source()}
            case = f"{h.cid} mode={mode}"
            probs = []
            it = h.inner.tag
            if standin:
                # the only definition of the blocklisted name may be the harness's raw line (not in the token inventory: raw lines are text)
                if it in names:
                    probs.append(f"blocklisted type {it} is defined in the bindings as {names[it]}")
                hold = idx.get(h.tag)
                if hold is None:
                    probs.append("container not emitted")
                else:
                    ftypes = {f["name"]: f["ty"].replace(" ", "") for f in hold["fields"]}
                    if ftypes.get("m") != it or it not in ftypes.get("p", "") or it not in ftypes.get("arr", ""):
                        probs.append(f"uses of the blocklisted type no longer name it: {ftypes}")
                    if mode == "vouch":
                        if "Copy" not in hold["derives"] or ("Debug" not in hold["derives"] and ctr.get(it, {}).get("T", (99,))[0] <= 32):
                            probs.append(f"derives are withheld although the callback vouches for the blocklisted type: {hold['derives']}")
            else:
                o = idx.get(it)
                if o is None:
                    probs.append(f"opaque type {it} is not emitted")
                else:
                    fn = [f["name"] for f in o["fields"]]
                    if [x for x in fn if x != "_bindgen_align"] not in (["_bindgen_opaque_blob"], ["_address"]):
                        probs.append(f"opaque type exposes fields {fn}")
                    for impl in g["inventory"]["items"]:
                        if impl["kind"] == "impl" and impl["self_ty"] == it and impl.get("trait") is None:
                            probs.append("opaque type has an inherent impl (accessors)")
            if r["rust_error"]:
                probs.append("rustc rejects the bindings" + (" with a trait-less stand-in of the right size and alignment" if standin else "") + ": " + " | ".join(r["rust_error"])[:300])
            elif r["r"] and r["c"]:
                if r["r"]["T"] != r["c"]["T"]:
                    probs.append(f"container size/align C={r['c']['T']} Rust={r['r']['T']}")
                for f, v in r["c"]["F"].items():
                    rv = r["r"]["F"].get(f)
                    if rv and rv != v:
                        probs.append(f"container member {f}: C={v} Rust={rv}")
            if probs:
                from .c01 import structure_class
                kinds = "+".join(sorted({re.sub(r"K\d+", "K", p.split(":")[0].split(" C=")[0])[:40] for p in probs}))
                ck.violation(case, dict(det, predicate=f"{mode}|{kinds}|{structure_class(h.inner)}", why="; ".join(probs)[:700]))
    return len(holders)


def same_name_cases(ck, only):
    """Kind-specific blocklists must not leak across kinds: a struct tag, a function and a variable share one name."""
    wd = os.path.join(ck.wd, "samename")
    os.makedirs(wd, exist_ok=True)
    orders = {
        "struct-first": "struct probe { int x; };\nint probe(struct probe *p);\nextern int other;\nstruct keep { struct probe *p; };\nint keepf(void);\n",
        "fn-first": "struct probe;\nint probe(struct probe *p);\nstruct probe { int x; };\nstruct keep { struct probe *p; };\nint keepf(void);\n",
        "var-same": "struct item { int x; };\nextern struct item item;\nint use_item(struct item *i);\n",
    }
    flagsets = {"blocklist-function": (["--blocklist-function", "probe"], {"fn:probe": False, "struct:probe": True}),
                "blocklist-type": (["--blocklist-type", "probe"], {"fn:probe": True, "struct:probe": False}),
                "blocklist-item": (["--blocklist-item", "probe"], {"fn:probe": False, "struct:probe": False}),
                "blocklist-var": (["--blocklist-var", "item"], {"var:item": False, "struct:item": True}),
                "blocklist-type-item": (["--blocklist-type", "item"], {"var:item": True, "struct:item": False})}
    jobs = []
    for oname, src in orders.items():
        hp = os.path.join(wd, oname + ".h")
        open(hp, "w").write(src)
        for fname, (flags, exp) in flagsets.items():
            if ("item" in fname.split("-")[-1] or fname == "blocklist-var") != (oname == "var-same") and fname not in ("blocklist-item",):
                continue
            if fname == "blocklist-item" and oname == "var-same":
                continue
            jobs.append({"id": f"{oname}|{fname}", "args": [hp] + flags, "inventory": True, "text": False})
    res = common.run_jobs(jobs, wd)
    for jid, r in res.items():
        oname, fname = jid.split("|")
        ck.count()
        ck.nontriv(jid)
        if only and only.get("cid") != jid:
            continue
        if r["status"] != "ok":
            ck.violation(f"same-name {jid} generation-failed", {"cid": jid, "mode": "samename", "why": str(r)[:200]})
            continue
        names = defined_names(r["inventory"])
        exp = flagsets[fname][1]
        for key, present in exp.items():
            kind, nm = key.split(":")
            have = {"fn": "foreign_fn" in names.get(nm, []), "struct": "struct" in names.get(nm, []), "var": "foreign_static" in names.get(nm, [])}[kind]
            if have != present:
                ck.violation(f"same-name {jid} {key}", {"cid": jid, "mode": "samename",
                             "why": f"with {flagsets[fname][0]} the {kind} `{nm}` should be {'present' if present else 'absent'} but is {'present' if have else 'absent'} (defined: {names.get(nm)})"})


CXX_INNER = r"""
struct Inner { int a; double d; char c; };
struct Big { char buf[24]; long double ld; };
struct WithBits { unsigned a:3; unsigned b:9; int k; };
class Poly { public: virtual ~Poly(); virtual int f(); long v; };  // no tail padding: a derived class cannot reuse any (bindgen does not model that, C02 territory)
namespace stdlike { template <typename T> struct vec { T *b; T *e; T *c; }; struct text { char *p; unsigned long n; char sso[16]; }; }
"""
CXX_MAIN = r"""
#include "inner_defs.hpp"
struct DerivedI : Inner { int x; };
struct DerivedB : Big { char y; };
struct DerivedW : WithBits { char z; };
template <typename T> struct Wrap { T t; int n; };
struct UsesT { char pre; Wrap<Inner> w; Wrap<Big> wb; Inner arr[2]; Inner *p; int after; };
struct UsesStd { char pre; stdlike::vec<int> v; stdlike::text s; stdlike::vec<Inner> vi; int tail; };
struct HoldsPoly { char pre; Poly *pp; int after; };
struct DerivedP : Poly { virtual int g(); int w; };
struct DerivedP2 : Poly { int only_data; };
struct HoldsDP { char pre; DerivedP d; DerivedP2 d2; int tail; };
int use_all(Inner *i, const Big &b, stdlike::text *s, WithBits w);
"""
# container -> probed members (Rust name == C++ name)
CXX_CONTAINERS = {"DerivedI": ["x"], "DerivedB": ["y"], "DerivedW": ["z"], "UsesT": ["pre", "w", "wb", "arr", "p", "after"],
                  "UsesStd": ["pre", "v", "s", "vi", "tail"], "HoldsPoly": ["pre", "pp", "after"],
                  "DerivedP": ["w"], "DerivedP2": ["only_data"], "HoldsDP": ["pre", "d", "d2", "tail"]}
CXX_INNERS = {"Inner": "Inner", "Big": "Big", "WithBits": "WithBits", "Poly": "Poly", "stdlike_text": "stdlike::text"}
STANDINS = {"Inner": "#[repr(C, align(8))] pub struct Inner(pub [u8; 24]);", "Big": "#[repr(C, align(16))] pub struct Big(pub [u8; 48]);",
            "WithBits": "#[repr(C, align(4))] pub struct WithBits(pub [u8; 8]);", "Poly": "#[repr(C, align(8))] pub struct Poly(pub [u8; 16]);",
            "stdlike_text": "#[repr(C, align(8))] pub struct stdlike_text(pub [u8; 32]);",
            "stdlike_vec": "#[repr(C)] pub struct stdlike_vec<T>(pub [usize; 3], pub ::std::marker::PhantomData<T>);"}
# mode -> (flags, blocklisted names, opaque names, containers whose members hold a blocklisted type by value)
CXX_MODES = {
    "blocklist-type": (["--blocklist-type", "Inner|Big|WithBits"], ["Inner", "Big", "WithBits"], [], ["DerivedI", "DerivedB", "DerivedW", "UsesT"]),
    "blocklist-item": (["--blocklist-item", "Inner|Big|WithBits"], ["Inner", "Big", "WithBits"], [], ["DerivedI", "DerivedB", "DerivedW", "UsesT"]),
    "blocklist-file": (["--blocklist-file", r".*inner_defs\.hpp"], ["Inner", "Big", "WithBits", "Poly", "stdlike_text", "stdlike_vec"], [],
                       ["DerivedI", "DerivedB", "DerivedW", "UsesT", "UsesStd"]),
    "opaque-type": (["--opaque-type", "Inner|Big|WithBits|Poly"], [], ["Inner", "Big", "WithBits", "Poly"], []),
    "opaque-stdlike": (["--opaque-type", "stdlike::.*"], [], ["stdlike_text"], []),
    "opaque-template": (["--opaque-type", "Wrap"], [], [], []),
    "opaque+blocklist-base": (["--opaque-type", "DerivedI|DerivedB", "--blocklist-type", "Inner"], ["Inner"], ["DerivedI", "DerivedB"], ["UsesT"]),
}


def cxx_cases(ck, only=None):
    """C++ uses the C part cannot express: blocklisted / opaque types as BASES, as TEMPLATE ARGUMENTS, std-like namespace patterns,
    polymorphic and bit-field classes made opaque, --blocklist-file on the header that defines them. Layout oracle: a clang++-built
    probe (sizeof / alignof / offsetof) against a rustc-built probe over the bindings plus trait-less stand-ins."""
    wd = os.path.join(ck.wd, "cxx")
    os.makedirs(wd, exist_ok=True)
    open(os.path.join(wd, "inner_defs.hpp"), "w").write(CXX_INNER)
    hp = os.path.join(wd, "main.hpp")
    open(hp, "w").write(CXX_MAIN)
    lines = ['#include <cstdio>', '#include <cstddef>', '#include "main.hpp"', "int main() {"]
    for t, cxx in list(CXX_INNERS.items()) + [(c, c) for c in CXX_CONTAINERS]:
        lines.append(f'  printf("T {t} %zu %zu\\n", sizeof({cxx}), alignof({cxx}));')
    for c, fs in CXX_CONTAINERS.items():
        for f in fs:
            lines.append(f'  printf("F {c} {f} %zu\\n", offsetof({c}, {f}));')
    lines.append("  return 0; }")
    open(os.path.join(wd, "probe.cc"), "w").write("\n".join(lines) + "\n")
    rc, _, err = common.clang(["-x", "c++", "-std=c++14", "-w", "probe.cc", "-o", "probe_c", "-Wno-invalid-offsetof"], cwd=wd)
    common.guard(rc == 0, "C10 C++ probe does not compile: " + err[:300])
    cnum = {tuple(l.split()[:-1]) if l.startswith("F") else tuple(l.split()[:2]): l.split()[2:] if l.startswith("T") else l.split()[-1:]
            for l in common.sh([os.path.join(wd, "probe_c")]).stdout.decode().splitlines()}
    modes = {m: v for m, v in CXX_MODES.items() if not only or only.get("mode") == "cxx:" + m}
    jobs = []
    for m, (flags, bl, op, through) in modes.items():
        raw = [x for n in bl for x in ("--raw-line", STANDINS[n])]
        jobs.append({"id": m, "args": [hp, "--no-layout-tests", "--with-derive-default", "--with-derive-hash", "--with-derive-partialeq"] + flags + raw +
                     ["--", "-x", "c++", "-std=c++14"], "inventory": True})
    res = common.run_jobs(jobs, wd, timeout=60)
    for m, (flags, bl, op, through) in modes.items():
        r = res[m]
        det = {"mode": "cxx:" + m}
        ck.count()
        ck.nontriv(("cxx", m))
        if r["status"] != "ok":
            ck.violation(f"cxx mode={m} generation-failed", dict(det, why=str(r)[:300]))
            continue
        idx = probes.index_inventory(r["inventory"])
        probs = []
        # the only definition of a blocklisted name may be the harness's own stand-in (a tuple struct passed as a raw line)
        defs = {}
        for it in r["inventory"]["items"]:
            if it.get("name") and it["kind"] in ("struct", "union", "enum", "type") and not (it["kind"] == "struct" and it.get("tuple")):
                defs.setdefault(it["name"], []).append(it["kind"])
        for n in bl:
            if n in defs:
                probs.append((f"defined({n})", f"blocklisted type {n} is defined in the bindings as {defs[n]}"))
        for n in op:
            o = idx.get(n)
            if o is None:
                probs.append((f"opaque-missing({n})", f"opaque type {n} is not emitted"))
                continue
            fn = [f["name"] for f in o["fields"] if f["name"] != "_bindgen_align"]
            if fn not in (["_bindgen_opaque_blob"], ["_address"]):
                probs.append((f"opaque-fields({n})", f"opaque type {n} exposes fields {fn}"))
            for impl in r["inventory"]["items"]:
                if impl["kind"] == "impl" and impl["self_ty"] == n and impl.get("trait") is None:
                    probs.append((f"opaque-impl({n})", f"opaque type {n} has an inherent impl (accessors / methods)"))
        for c in through:
            o = idx.get(c)
            if o is not None and set(o["derives"]) & {"Debug", "Default", "Hash", "PartialEq", "Copy", "Clone"}:
                probs.append((f"derive-through({c})", f"{c} derives {o['derives']} through a blocklisted type nobody vouched for"))
        for dname, bname in (("DerivedI", "Inner"), ("DerivedB", "Big"), ("DerivedW", "WithBits")):
            if bname in bl and idx.get(dname) is not None and dname not in op:
                ft = {f["name"]: f["ty"].replace(" ", "") for f in idx[dname]["fields"]}
                if ft.get("_base") != bname:
                    probs.append((f"base-not-named({dname})", f"the base of {dname} no longer names the blocklisted type {bname}: {ft}"))
        # layout through rustc
        bp = os.path.join(wd, f"b_{m.replace('+', '_').replace('-', '_')}.rs")
        open(bp, "w").write(r["text"])
        rl = ['#![allow(warnings)]', f'mod b {{ include!("{bp}"); }}', "use std::mem::{size_of, align_of, offset_of};", "fn main() {"]
        present = [t for t in list(CXX_INNERS) + list(CXX_CONTAINERS) if t in idx or t in bl]
        for t in present:
            rl.append(f'  println!("T {t} {{}} {{}}", size_of::<b::{t}>(), align_of::<b::{t}>());')
        for c, fs in CXX_CONTAINERS.items():
            if c in idx and c not in op:
                have = {f["name"] for f in idx[c]["fields"]}
                for f in fs:
                    if f in have:
                        rl.append(f'  println!("F {c} {f} {{}}", offset_of!(b::{c}, {f}));')
                    else:
                        probs.append((f"member-missing({c}.{f})", f"{c}.{f} is not a member of the bindings' {c} ({sorted(have)})"))
        rl.append("}")
        mp = os.path.join(wd, f"main_{m.replace('+', '_').replace('-', '_')}.rs")
        open(mp, "w").write("\n".join(rl) + "\n")
        exe = mp[:-3]
        ok, err = common.rustc_bin(mp, exe, opt=False)
        if not ok:
            mm = re.findall(r"error(?:\[E\d+\])?: .*", err)
            probs.append(("rustc-rejects", "rustc rejects the bindings with trait-less stand-ins of the right size and alignment: " + " | ".join(mm[:3])[:300]))
        else:
            for l in common.sh([exe]).stdout.decode().splitlines():
                w = l.split()
                key = tuple(w[:-1]) if w[0] == "F" else tuple(w[:2])
                val = w[-1:] if w[0] == "F" else w[2:]
                if key in cnum and cnum[key] != val:
                    probs.append((f"layout({'.'.join(key[1:])})", f"{' '.join(key)}: C++ {cnum[key]} Rust {val}"))
        for c in CXX_CONTAINERS:
            if c not in idx:
                probs.append((f"container-missing({c})", f"container {c} is not emitted"))
        for key, text in probs:
            ck.violation(f"cxx mode={m} {key}", dict(det, why=text[:700]))
    ck.extra["cxx_modes"] = len(modes)


SPECIAL_NAMES = [("size_t", "unsigned long", 8), ("ssize_t", "long", 8), ("uint8_t", "unsigned char", 1), ("int64_t", "long", 8), ("uintptr_t", "unsigned long", 8),
                 ("intptr_t", "long", 8), ("ptrdiff_t", "long", 8), ("wchar_t_like", "int", 4), ("uint32_t", "unsigned int", 4), ("int8_t", "signed char", 1)]


def special_names(ck, only=None):
    """Typedef names that bindgen maps by NAME (the <stdint.h> / <stddef.h> families) when they are blocklisted, with and without
    --no-size_t-is-usize: wherever a use still names the blocklisted identifier, nothing may be derived through it - the output must
    compile against a stand-in that implements no trait."""
    import re
    wd = os.path.join(ck.wd, "specialnames")
    os.makedirs(wd, exist_ok=True)
    rows = [("default", []), ("no-size_t-is-usize", ["--no-size_t-is-usize"]), ("derives", ["--with-derive-default", "--with-derive-hash", "--with-derive-partialeq"]),
            ("no-size_t+derives", ["--no-size_t-is-usize", "--with-derive-default", "--with-derive-hash", "--with-derive-partialeq", "--with-derive-eq"])]
    jobs, info = [], {}
    for name, cty, size in SPECIAL_NAMES:
        hp = os.path.join(wd, f"sn_{name}.h")
        open(hp, "w").write(f"typedef {cty} {name};\nstruct H_{name} {{ {name} v; int z; }};\nstruct A_{name} {{ {name} arr[3]; }};\n{name} f_{name}({name} x, {name} *p);\n"
                            f"struct Ctl_{name} {{ {cty} v; int z; }};\n")
        for rn, fl in rows:
            jid = f"{name}|{rn}"
            jobs.append({"id": jid, "args": [hp, "--formatter", "prettyplease", "--blocklist-type", name] + fl})
            info[jid] = (name, cty, size, rn)
    res = common.run_jobs(jobs, wd, timeout=60)

    def one(jid):
        name, cty, size, rn = info[jid]
        r = res[jid]
        if r["status"] != "ok":
            return jid, "generation-failed", str(r)[:200]
        text = r["text"]
        if re.search(rf"\b(struct|type|union|enum)\s+{name}\b", text):
            return jid, "defined", f"the blocklisted name {name} is defined in the output"
        names_it = bool(re.search(rf"\b{name}\b", text))
        bp = os.path.join(wd, f"{name}_{rn.replace('+', '_')}.rs")
        rust_int = {1: "u8", 4: "u32", 8: "u64"}[size]
        standin = f"#[repr(transparent)] pub struct {name}({rust_int});\n" if names_it else ""
        open(bp, "w").write("#![allow(warnings)]\n" + standin + text)
        ok, err = common.rustc_meta(bp)
        if not ok:
            return jid, "does-not-compile", " | ".join(re.findall(r"error(?:\[E\d+\])?: .*", err)[:3])[:400] + (" (stand-in without trait impls supplied)" if names_it else "")
        return jid, None, names_it
    for jid, what, why in common.pmap(one, list(info)):
        name, cty, size, rn = info[jid]
        ck.count()
        ck.nontriv(("specialname", jid))
        if what:
            ck.violation(f"special-name {name} row={rn} {what}", {"mode": "specialnames", "why": f"--blocklist-type {name} ({rn}): {why}"})
    ck.extra["special_name_runs"] = len(jobs)


def blocklist_file_paths(ck, only=None):
    """--blocklist-file patterns are matched against the file names clang reports. The same header reached through a plain
    path, through `dir/../dir`, through a symbolic link to its directory and through a symbolic link to the file: a pattern that
    names a component of the path AS SPELLED keeps blocklisting it, and nothing from that file is defined."""
    wd = os.path.join(ck.wd, "blfile")
    import shutil
    shutil.rmtree(wd, ignore_errors=True)
    os.makedirs(os.path.join(wd, "proj", "include"), exist_ok=True)
    os.makedirs(os.path.join(wd, "proj", "vendor-1.2"), exist_ok=True)
    os.symlink("vendor-1.2", os.path.join(wd, "proj", "vendor"))
    open(os.path.join(wd, "proj", "vendor-1.2", "secret.h"), "w").write("struct Secret { int s; };\nint secret_fn(struct Secret *p);\n")
    os.symlink(os.path.join(wd, "proj", "vendor-1.2", "secret.h"), os.path.join(wd, "proj", "include", "linked_secret.h"))
    main = os.path.join(wd, "proj", "include", "main.h")
    cases = [("plain", "-I" + os.path.join(wd, "proj", "vendor-1.2"), '#include "secret.h"', ".*/vendor-1.2/.*"),
             ("dotdot", "-I" + os.path.join(wd, "proj", "include", "..", "vendor-1.2"), '#include "secret.h"', ".*/vendor-1.2/.*"),
             ("symlinked-dir", "-I" + os.path.join(wd, "proj", "vendor"), '#include "secret.h"', ".*/vendor/.*"),
             ("dotdot+symlinked-dir", "-I" + os.path.join(wd, "proj", "include", "..", "vendor"), '#include "secret.h"', ".*/vendor/.*"),
             ("dotdot+symlinked-dir-by-name", "-I" + os.path.join(wd, "proj", "include", "..", "vendor"), '#include "secret.h"', ".*secret\\.h"),
             ("symlinked-file", "-I" + os.path.join(wd, "proj", "include"), '#include "linked_secret.h"', ".*linked_secret\\.h")]
    jobs = []
    for cn, inc, line, pat in cases:
        mp = os.path.join(wd, "proj", "include", f"main_{cn.replace('+', '_')}.h")
        open(mp, "w").write(line + "\nstruct Uses { struct Secret *p; int own; };\nint own_fn(void);\n")
        jobs.append({"id": cn, "args": [mp, "--formatter", "none", "--no-layout-tests", "--blocklist-file", pat, "--", inc], "inventory": True})
    res = common.run_jobs(jobs, wd, timeout=60)
    for cn, inc, line, pat in cases:
        r = res[cn]
        ck.count()
        ck.nontriv(("blfile", cn))
        if r["status"] != "ok":
            ck.violation(f"blocklist-file path={cn} generation-failed", {"mode": "blfile", "why": str(r)[:200]})
            continue
        names = defined_names(r["inventory"])
        bad = sorted(n for n in ("Secret", "secret_fn") if n in names)
        missing = sorted(n for n in ("Uses", "own_fn") if n not in names)
        if bad or missing:
            ck.violation(f"blocklist-file path={cn}", {"mode": "blfile", "why": f"pattern `{pat}` with include path {inc}: defined although the file is blocklisted: {bad}; own items missing: {missing}"})
    ck.extra["blocklist_file_path_cases"] = len(cases)


def indirect_and_bulk(ck, only=None):
    """(a) a blocklisted type reached only through typedefs / arrays of typedefs, with the hand-written impls switched on
    (--impl-debug, --impl-partialeq): the holder must compile against a stand-in without trait impls. (b) pattern families large
    enough to matter to however the patterns are compiled (several `\w+_suffix` patterns; 1 500 plain names): every matching type
    stays blocklisted."""
    import re
    wd = os.path.join(ck.wd, "indirect")
    os.makedirs(wd, exist_ok=True)
    hp = os.path.join(wd, "indirect.h")
    open(hp, "w").write("struct Handle { int h; long l; };\ntypedef struct Handle handle_t;\ntypedef handle_t handle2_t;\n"
                        "struct Session { handle_t primary; int big[40]; };\nstruct Pool { handle2_t slots[3]; char tag; };\nstruct Direct { struct Handle d; int big[40]; };\n"
                        "struct Ctl { int a; int big[40]; };\n")
    rows = [("impl-debug", ["--impl-debug"]), ("impl-partialeq", ["--impl-partialeq", "--with-derive-partialeq"]), ("impl-both+default", ["--impl-debug", "--impl-partialeq", "--with-derive-partialeq", "--with-derive-default"]),
            ("derives-only", ["--with-derive-default", "--with-derive-hash", "--with-derive-partialeq"])]
    res = common.run_jobs([{"id": rn, "args": [hp, "--formatter", "prettyplease", "--blocklist-type", "Handle"] + fl} for rn, fl in rows], wd, timeout=60)
    for rn, fl in rows:
        r = res[rn]
        ck.count()
        ck.nontriv(("indirect", rn))
        if r["status"] != "ok":
            ck.violation(f"indirect-blocklist row={rn} generation-failed", {"mode": "indirect", "why": str(r)[:200]})
            continue
        bp = os.path.join(wd, f"ind_{rn.replace('+', '_')}.rs")
        open(bp, "w").write("#![allow(warnings)]\n#[repr(C)] pub struct Handle { h: i32, l: i64 }\n" + r["text"])
        ok, err = common.rustc_meta(bp)
        if not ok or re.search(r"\bstruct\s+Handle\b", r["text"]):
            ck.violation(f"indirect-blocklist row={rn}", {"mode": "indirect", "why": f"--blocklist-type Handle {fl}: " + ("Handle is defined in the output" if ok else
                         "does not compile against a stand-in without trait impls: " + " | ".join(re.findall(r"error(?:\[E\d+\])?: .*", err)[:3])[:300])})
    # (b) bulk pattern families
    n = 1500
    names = [f"api_{k}_priv" if k % 3 == 0 else (f"mod{k}_impl" if k % 3 == 1 else f"thing{k}") for k in range(n)]
    hb = os.path.join(wd, "bulk.h")
    open(hb, "w").write("\n".join(f"struct {nm} {{ int v{k}; }};" for k, nm in enumerate(names)) + "\nstruct keep_me { int k; };\n")
    suffix_pats = [r"\w+_priv", r"\w+_impl", r"\w+_hidden", r"\w+_internal", r"\w+_detail", r"\w+_opaque", r"\w+_secret", r"\w+_p"]
    flagsets = [("suffix-patterns", [x for p_ in suffix_pats for x in ("--blocklist-type", p_)], lambda nm: nm.endswith(("_priv", "_impl"))),
                ("plain-names", [x for nm in names[:n] if nm.startswith("thing") or nm.endswith("_impl") for x in ("--blocklist-type", nm)] , lambda nm: nm.startswith("thing") or nm.endswith("_impl")),
                ("suffix-patterns-item", [x for p_ in suffix_pats for x in ("--blocklist-item", p_)], lambda nm: nm.endswith(("_priv", "_impl"))),
                ("opaque-suffix", [x for p_ in suffix_pats for x in ("--opaque-type", p_)], None)]
    res = common.run_jobs([{"id": fn, "args": [hb, "--formatter", "none", "--no-layout-tests"] + fl, "inventory": True, "timeout": 120} for fn, fl, _ in flagsets], wd, timeout=120)
    for fn, fl, pred in flagsets:
        r = res[fn]
        ck.count()
        ck.nontriv(("bulk", fn))
        if r["status"] != "ok":
            ck.violation(f"bulk-patterns case={fn} generation-failed", {"mode": "indirect", "why": str(r)[:200]})
            continue
        dn = defined_names(r["inventory"])
        if pred is not None:
            leaked = [nm for nm in names if pred(nm) and nm in dn]
            lost = [nm for nm in names if not pred(nm) and nm not in dn] + ([] if "keep_me" in dn else ["keep_me"])
            if leaked or lost:
                ck.violation(f"bulk-patterns case={fn}", {"mode": "indirect", "why": f"{len(fl) // 2} patterns: {len(leaked)} matching types are still defined (e.g. {leaked[:3]}), {len(lost)} other types are missing (e.g. {lost[:3]})"})
        else:
            inv = {it["name"]: it for it in r["inventory"]["items"] if it["kind"] == "struct"}
            notopaque = [nm for nm in names if nm.endswith(("_priv", "_impl")) and nm in inv and any(f["name"].startswith("v") for f in inv[nm]["fields"])]
            if notopaque:
                ck.violation(f"bulk-patterns case={fn}", {"mode": "indirect", "why": f"{len(notopaque)} types matched by an --opaque-type pattern still expose their fields (e.g. {notopaque[:3]})"})
    ck.extra["indirect_and_bulk_runs"] = len(rows) + len(flagsets)


def run(ck, only=None):
    inner = family(ck.tier, ck.seed)
    total = 0
    for mode in ("blocklist", "vouch", "opaque", "annotation", "opaque+blocklist"):
        if only and only.get("mode") not in (mode,):
            continue
        fam = inner if mode in ("blocklist", "opaque") or ck.tier == "thorough" else [c for k, c in enumerate(inner) if k % 4 == 0]
        total += run_mode(ck, mode, fam, only)
    if not only or only.get("mode") == "samename":
        same_name_cases(ck, only)
    if not only or str(only.get("mode", "")).startswith("cxx:"):
        cxx_cases(ck, only)
    if not only or only.get("mode") == "specialnames":
        special_names(ck, only)
    if not only or only.get("mode") == "blfile":
        blocklist_file_paths(ck, only)
    if not only or only.get("mode") == "indirect":
        indirect_and_bulk(ck, only)
    ck.sample({"mode": "blocklist", "inner": inner[5].cid, "flags": ["--blocklist-type", "K\\d+_BL"], "stand-in": "#[repr(C, align(A))] pub struct Kn_BL(pub [u8; S]);"})
    ck.extra["holders"] = total
    ck.assume("the stand-in definition is supplied as a raw line with the size and alignment the C compiler reports; it implements no trait "
              "(except in the vouching mode), so a derive that goes through the blocklisted type fails to compile")


def replay(ck, case, detail):
    n0 = len(ck.violations)
    run(ck, only=detail)
    return not any(c == case for c, _ in ck.violations[n0:])
