"""Shared machinery: builds, job pool, compilers, evidence, findings, replay."""
import hashlib
import json
import os
import re
import shutil
import subprocess
import sys
import time

ROOT = os.path.dirname(os.path.dirname(os.path.abspath(__file__)))
REPO = os.environ.get("VERIF_REPO", "/repo")
WORK = os.environ.get("VERIF_WORK") or os.path.join(ROOT, "work")   # scratch; VERIF_WORK lets two runs of one check coexist
HARNESS = os.path.join(ROOT, "harness")
# VERIF_BUILD lets a trial run (a seeded change applied to /repo) build into its own directories, so that a long run
# started from the unchanged tree keeps using its own binaries
_BUILD = os.environ.get("VERIF_BUILD")
HARNESS_TARGET = os.path.join(_BUILD, "harness") if _BUILD else os.path.join(HARNESS, "target")
VDRIVER = os.path.join(HARNESS_TARGET, "release", "vdriver")
CLI_TARGET = os.path.join(_BUILD, "cli") if _BUILD else os.path.join(ROOT, "target", "cli")
CLI = os.path.join(CLI_TARGET, "release", "bindgen")
EVIDENCE = os.environ.get("VERIF_EVIDENCE") or os.path.join(ROOT, "evidence")
REPLAY = os.path.join(ROOT, "replay")
FINDINGS = os.path.join(ROOT, "KNOWN_FINDINGS.jsonl")
NCPU = os.cpu_count() or 8
HEADERS = os.path.join(REPO, "bindgen-tests", "tests", "headers")

ENV = dict(os.environ)
ENV["CARGO_NET_OFFLINE"] = "true"
ENV.pop("RUSTFLAGS", None)
# bindgen consults these; keep the environment of every run fixed
for k in ("BINDGEN_EXTRA_CLANG_ARGS", "TARGET", "RUSTFMT"):
    ENV.pop(k, None)


class Machinery(Exception):
    """A failure of the checking machinery (never a verdict)."""


def die_machinery(msg):
    print(f"MACHINERY-ERROR: {msg}", flush=True)
    sys.exit(2)


def sh(cmd, cwd=None, timeout=None, env=None, check=False, input=None):
    p = subprocess.run(cmd, cwd=cwd, timeout=timeout, env=env or ENV, input=input,
                       stdout=subprocess.PIPE, stderr=subprocess.PIPE)
    if check and p.returncode != 0:
        raise Machinery(f"command failed ({p.returncode}): {cmd}\n{p.stderr.decode(errors='replace')[-2000:]}")
    return p


def sha(s):
    if isinstance(s, str):
        s = s.encode()
    return hashlib.sha256(s).hexdigest()[:16]


# --------------------------------------------------------------------------
# builds (always from /repo's current working tree; cargo decides staleness)

_built = {}


def build_vdriver():
    if _built.get("vdriver"):
        return
    lock_src = os.path.join(REPO, "Cargo.lock")
    lock_dst = os.path.join(HARNESS, "Cargo.lock")
    if not os.path.exists(lock_dst):
        shutil.copy(lock_src, lock_dst)
    t0 = time.time()
    # VERIF_REPO (a private copy of the repository, e.g. while /repo is being patched by a seed run) replaces the path dependency
    override = ["--config", f'paths = ["{os.path.join(REPO, "bindgen")}"]'] if REPO != "/repo" else []
    p = sh(["cargo", "build", "--release", "--offline", "--features", "hooks", "--target-dir", HARNESS_TARGET] + override, cwd=HARNESS)
    if p.returncode != 0:
        sys.stdout.write(p.stderr.decode(errors="replace")[-4000:])
        die_machinery("vdriver (harness linked against /repo/bindgen, hooks on) failed to build")
    _built["vdriver"] = time.time() - t0


def build_cli():
    if _built.get("cli"):
        return
    t0 = time.time()
    # same reasoning as harness/Cargo.toml: overflow and debug assertions inside bindgen must be observable
    env = dict(ENV, CARGO_PROFILE_RELEASE_OVERFLOW_CHECKS="true", CARGO_PROFILE_RELEASE_DEBUG_ASSERTIONS="true")
    p = sh(["cargo", "build", "-p", "bindgen-cli", "--release", "--offline", "--target-dir", CLI_TARGET], cwd=REPO, env=env)
    if p.returncode != 0:
        sys.stdout.write(p.stderr.decode(errors="replace")[-4000:])
        die_machinery("production bindgen CLI failed to build")
    _built["cli"] = time.time() - t0


CLI_DEV = os.path.join(CLI_TARGET, "debug", "bindgen")


def build_cli_dev():
    """The CLI in cargo's dev profile (unoptimised, large stack frames): what a `cargo build` of a workspace that uses bindgen
    gives. Used where stack depth matters (C12)."""
    if _built.get("cli_dev"):
        return
    t0 = time.time()
    p = sh(["cargo", "build", "-p", "bindgen-cli", "--offline", "--target-dir", CLI_TARGET], cwd=REPO)
    if p.returncode != 0:
        sys.stdout.write(p.stderr.decode(errors="replace")[-4000:])
        die_machinery("dev-profile bindgen CLI failed to build")
    _built["cli_dev"] = time.time() - t0


def build_all():
    build_vdriver()
    build_cli()


# --------------------------------------------------------------------------
# job pool

def workdir(tag, clean=True):
    d = os.path.join(WORK, tag)
    if clean and os.path.isdir(d):
        shutil.rmtree(d, ignore_errors=True)
    os.makedirs(d, exist_ok=True)
    return d


_job_seq = [0]


def run_jobs(jobs, wd, threads=None, timeout=20, env=None, cwd=None):
    """Run jobs (list of dicts with unique 'id') on the worker-process pool. Returns {id: result}."""
    build_vdriver()
    if not jobs:
        return {}
    _job_seq[0] += 1
    jf = os.path.join(wd, f"jobs{_job_seq[0]}.jsonl")
    of = os.path.join(wd, f"out{_job_seq[0]}.jsonl")
    with open(jf, "w") as f:
        for j in jobs:
            f.write(json.dumps(j) + "\n")
    cmd = [VDRIVER, "run-jobs", jf, of, "-j", str(threads or NCPU), "--timeout", str(timeout),
           "--stderr", os.path.join(wd, "workers.stderr")]
    p = sh(cmd, env=env or ENV, cwd=cwd)
    if p.returncode != 0:
        raise Machinery(f"vdriver run-jobs failed: {p.stderr.decode(errors='replace')[-2000:]}")
    res = {}
    with open(of) as f:
        for line in f:
            r = json.loads(line)
            res[r["id"]] = r
    missing = [j["id"] for j in jobs if j["id"] not in res]
    if missing:
        raise Machinery(f"{len(missing)} jobs without result, e.g. {missing[:3]}")
    os.remove(jf)
    os.remove(of)
    return res


# --------------------------------------------------------------------------
# compilers

def rustc_meta(path, edition="2021", extra=None, timeout=300, out_dir=None):
    """Type-check + const-evaluate a crate (no codegen). Returns (ok, stderr)."""
    out_dir = out_dir or os.path.dirname(path)
    cmd = ["rustc", "--edition", edition, "--crate-type", "lib", "--emit=metadata", "-Awarnings",
           "--out-dir", out_dir, path] + (extra or [])
    p = sh(cmd, timeout=timeout)
    return p.returncode == 0, p.stderr.decode(errors="replace")


def rustc_bin(path, out, edition="2021", opt=True, debug_assertions=False, extra=None, timeout=600):
    cmd = ["rustc", "--edition", edition, "-Awarnings", "-o", out, path]
    if opt:
        cmd += ["-O"]
    if debug_assertions:
        cmd += ["-C", "debug-assertions=on"]
    cmd += (extra or [])
    p = sh(cmd, timeout=timeout)
    return p.returncode == 0, p.stderr.decode(errors="replace")


def clang(args, timeout=120, cwd=None, input=None):
    p = sh(["clang"] + args, timeout=timeout, cwd=cwd, input=input)
    return p.returncode, p.stdout.decode(errors="replace"), p.stderr.decode(errors="replace")


def pmap(fn, items, threads=None):
    """Thread-pool map (work is in subprocesses, so threads suffice)."""
    from concurrent.futures import ThreadPoolExecutor
    with ThreadPoolExecutor(max_workers=threads or NCPU) as ex:
        return list(ex.map(fn, items))


# --------------------------------------------------------------------------
# known findings

def load_findings(pid):
    out = []
    if not os.path.exists(FINDINGS):
        return out
    with open(FINDINGS) as f:
        for line in f:
            line = line.strip()
            if not line or line.startswith("#") or line.startswith("fixed:"):
                continue
            rec = json.loads(line)
            if rec.get("property") == pid:
                out.append(rec)
    return out


# --------------------------------------------------------------------------
# one run of one check

class Check:
    def __init__(self, pid, tier, level, rule):
        self.pid = pid
        self.tier = tier
        self.level = level
        self.seed = int(os.environ.get("VERIF_SEED", "0") or 0)
        self.t0 = time.time()
        self.rule = rule
        self.evaluations = 0
        self.nontrivial = set()
        self.samples = []
        self.assumptions = []
        self.extra = {}
        self.caps = []
        self.exhaustive = True
        self.violations = []  # (case_id, detail dict)
        self.findings = load_findings(pid)
        self.finding_hits = {}
        self.wd = workdir(pid)
        self.replay_only = False

    # coverage ---------------------------------------------------------
    def count(self, n=1):
        self.evaluations += n

    def nontriv(self, key):
        self.nontrivial.add(key)

    def sample(self, obj, limit=6):
        if len(self.samples) < limit:
            self.samples.append(obj)

    def cap(self, what):
        self.caps.append(what)
        self.exhaustive = False

    def assume(self, text):
        if text not in self.assumptions:
            self.assumptions.append(text)

    # verdicts ---------------------------------------------------------
    def known(self, case_id, detail):
        """Return the finding record suppressing this case, if any."""
        for rec in self.findings:
            if case_id in rec.get("cases", ()):  # exact ids only
                return rec
            pred = rec.get("predicate")
            if pred and detail.get("predicate") == pred:
                return rec
            if detail.get("predicate") and detail.get("predicate") in rec.get("predicates", ()):
                return rec
            for pat in rec.get("case_patterns", ()):  # anchored, reviewed patterns for closed-form classes
                if re.fullmatch(pat, case_id):
                    return rec
        return None

    def violation(self, case_id, detail):
        """Record a failing case. detail must contain everything replay needs."""
        rec = self.known(case_id, detail)
        if rec is not None:
            self.finding_hits.setdefault(rec["id"], []).append(case_id)
            return False
        self.violations.append((case_id, detail))
        return True

    def finish(self):
        wall = time.time() - self.t0
        nviol = len(self.violations)
        os.makedirs(EVIDENCE, exist_ok=True)
        for rec in self.findings:
            hits = self.finding_hits.get(rec["id"], [])
            if hits:
                print(f"KNOWN-FINDING: property={self.pid} {rec['what']} ({len(hits)} cases, e.g. {hits[0]})")
        paths = []
        if not self.replay_only:
            # full list for triage (scratch, not evidence)
            with open(os.path.join(self.wd, "violations.jsonl"), "w") as f:
                for case_id, detail in self.violations:
                    f.write(json.dumps({"case": case_id, "predicate": detail.get("predicate"), "why": str(detail.get("why"))[:600]}) + "\n")
        if nviol and not self.replay_only:
            d = os.path.join(REPLAY, self.pid)
            os.makedirs(d, exist_ok=True)
            for case_id, detail in self.violations[:50]:
                p = os.path.join(d, sha(case_id) + ".json")
                with open(p, "w") as f:
                    json.dump({"property": self.pid, "case": case_id, "detail": detail}, f, indent=1)
                paths.append(p)
                print(f"VIOLATION property={self.pid} replay={p}")
                print(f"  case: {case_id[:300]}")
                msg = detail.get("why") or detail.get("msg")
                if msg:
                    print(f"  why: {str(msg)[:600]}")
            if nviol > 50:
                print(f"  ... and {nviol - 50} more violations")
        cov = {
            "evaluations": self.evaluations,
            "distinct_nontrivial": len(self.nontrivial),
            "rule": self.rule,
            "samples": self.samples,
            "exhaustive": self.exhaustive and not self.caps,
            "caps_hit": self.caps,
            "known_finding_cases": {k: len(v) for k, v in self.finding_hits.items()},
        }
        cov.update(self.extra)
        ev = {
            "property_id": self.pid,
            "tier": self.tier,
            "seed": self.seed,
            "level": self.level,
            "coverage": cov,
            "assumptions": self.assumptions,
            "wall_s": round(wall, 2),
            "violations": nviol,
        }
        if not self.replay_only:
            with open(os.path.join(EVIDENCE, self.pid + ".json"), "w") as f:
                json.dump(ev, f, indent=1, default=str)
        print(f"[{self.pid}] tier={self.tier} evaluations={self.evaluations} nontrivial={len(self.nontrivial)} "
              f"violations={nviol} known={sum(len(v) for v in self.finding_hits.values())} wall={wall:.1f}s "
              + " ".join(f"{k}={v}" for k, v in self.extra.items() if isinstance(v, (int, float))))
        # vacuity guards: an empty exploration is a machinery failure, not a pass
        if not self.replay_only and (self.evaluations < 1 or len(self.nontrivial) < 2):
            die_machinery(f"{self.pid}: vacuous run (evaluations={self.evaluations}, nontrivial={len(self.nontrivial)})")
        return 1 if nviol else 0


def guard(cond, msg):
    """Vacuity / sanity guard: machinery failure when false."""
    if not cond:
        die_machinery(msg)


def repo_headers():
    hs = []
    for n in sorted(os.listdir(HEADERS)):
        if n.endswith(".h") or n.endswith(".hpp"):
            hs.append(os.path.join(HEADERS, n))
    return hs


def header_spec(path):
    """(flags, parse_callbacks_name_or_None) a repository test header asks for; mirrors
    bindgen-tests/tests/tests.rs::create_bindgen_builder."""
    import shlex
    flags, cb = [], None
    with open(path, errors="replace") as f:
        for line in f:
            line = line.rstrip("\n")
            if not line.startswith("// bindgen"):
                continue
            if "bindgen-flags: " in line:
                flags += shlex.split(line.split("bindgen-flags: ")[-1])
            elif "bindgen-osx-only" in line:
                flags = ["--raw-line", '#![cfg(target_os="macos")]'] + flags
            elif "bindgen-parse-callbacks: " in line:
                cb = line.split("bindgen-parse-callbacks: ")[-1].strip()
    if not any(f.startswith("--target=") for f in flags):
        if "--" not in flags:
            flags.append("--")
        flags.append("--target=x86_64-unknown-linux")
    return flags, cb


def repo_header_args(path, extra=()):
    """CLI argument list (without argv[0]) equivalent to what the repository suite uses for this header,
    plus `extra` bindgen flags (inserted before the clang `--` section)."""
    flags, cb = header_spec(path)
    i = flags.index("--") if "--" in flags else len(flags)
    return ["--with-derive-default", "--vtable-generation", path] + flags[:i] + list(extra) + flags[i:], cb
