"""C03 - bit-field getters, setters and constructors agree bit-for-bit with C.

(a) arithmetic sweep (model checking of the accessor arithmetic): the current tree's
    bindgen/codegen/bitfield_unit.rs is `include!`d into a generated sweep program; every
    (storage bytes N, bit offset, bit width 1..=64) triple that fits is driven through all eight entry
    points (get/set/raw_get/raw_set and their const-generic forms) on three storage fills with a value
    alphabet that sets and clears every bit position, against a Vec<bool> reference model; release and
    debug-assertions builds.
(b) generated records: bit-field runs in structs/unions; C program vs Rust program transcripts
    (see c03b in this module).
"""
import json
import os

from . import common
from .common import Check

LEVEL = "model_checking"
UNIT = os.path.join(common.REPO, "bindgen", "codegen", "bitfield_unit.rs")

PROGRAM = r'''
#![allow(dead_code, unused_unsafe, clippy::all)]
include!("@UNIT@");
use std::panic::{catch_unwind, AssertUnwindSafe};

type U<const N: usize> = __BindgenBitfieldUnit<[u8; N]>;

fn model_bits(bytes: &[u8]) -> Vec<bool> {
    let mut v = Vec::with_capacity(bytes.len() * 8);
    for b in bytes { for i in 0..8 { v.push(b >> i & 1 == 1); } }
    v
}
fn model_bytes(bits: &[bool]) -> Vec<u8> {
    bits.chunks(8).map(|c| c.iter().enumerate().fold(0u8, |a, (i, b)| a | ((*b as u8) << i))).collect()
}
fn model_get(bits: &[bool], off: usize, w: usize) -> u64 {
    (0..w).fold(0u64, |a, i| a | ((bits[off + i] as u64) << i))
}
fn model_set(bits: &mut [bool], off: usize, w: usize, val: u64) {
    for i in 0..w { bits[off + i] = val >> i & 1 == 1; }
}
fn values(w: usize) -> Vec<u64> {
    let mask = if w == 64 { u64::MAX } else { (1u64 << w) - 1 };
    let mut v = vec![0, 1, mask, 0xAAAA_AAAA_AAAA_AAAA, 0x5555_5555_5555_5555, u64::MAX, 1u64 << (w - 1), 0x0123_4567_89AB_CDEF];
    for i in 0..w { v.push(1u64 << i); }
    v
}
fn fills<const N: usize>() -> [[u8; N]; 3] {
    let mut p = [0u8; N];
    let mut x: u32 = 0x9E37_79B9;
    for b in p.iter_mut() { x = x.wrapping_mul(1664525).wrapping_add(1013904223); *b = (x >> 24) as u8; }
    [[0u8; N], [0xFFu8; N], p]
}

struct Stats { triples: u64, ops: u64, fails: Vec<String> }

// const-generic dispatch tables (generated)
@TABLES@

fn sweep<const N: usize>(st: &mut Stats, const_pairs: &dyn Fn(usize, u8) -> bool,
    gc: fn(&U<N>, usize, u8) -> u64, sc: fn(&mut U<N>, usize, u8, u64),
    rgc: fn(*const U<N>, usize, u8) -> u64, rsc: fn(*mut U<N>, usize, u8, u64)) {
    for off in 0..8 * N {
        for w in 1..=64usize {
            if off + w > 8 * N { break; }
            st.triples += 1;
            let has_const = const_pairs(off, w as u8);
            for fill in fills::<N>() {
                let bits0 = model_bits(&fill);
                let want_get = model_get(&bits0, off, w);
                // ---- getters
                let mut check_get = |name: &str, f: &dyn Fn() -> u64, st: &mut Stats| {
                    st.ops += 1;
                    match catch_unwind(AssertUnwindSafe(|| f())) {
                        Ok(v) if v == want_get => {}
                        Ok(v) => st.fails.push(format!("{{\"n\":{N},\"off\":{off},\"w\":{w},\"entry\":\"{name}\",\"kind\":\"wrong-value\",\"got\":\"{v:#x}\",\"want\":\"{want_get:#x}\"}}")),
                        Err(_) => st.fails.push(format!("{{\"n\":{N},\"off\":{off},\"w\":{w},\"entry\":\"{name}\",\"kind\":\"panic\"}}")),
                    }
                };
                let u = U::<N>::new(fill);
                check_get("get", &|| u.get(off, w as u8), st);
                check_get("raw_get", &|| unsafe { U::<N>::raw_get(&u as *const _, off, w as u8) }, st);
                if has_const {
                    check_get("get_const", &|| gc(&u, off, w as u8), st);
                    check_get("raw_get_const", &|| rgc(&u as *const _, off, w as u8), st);
                }
                // ---- setters
                for val in values(w) {
                    let mut bits = bits0.clone();
                    model_set(&mut bits, off, w, val);
                    let want = model_bytes(&bits);
                    let mut check_set = |name: &str, f: &dyn Fn(&mut U<N>), st: &mut Stats| {
                        st.ops += 1;
                        let mut u = U::<N>::new(fill);
                        match catch_unwind(AssertUnwindSafe(|| { f(&mut u); u.storage })) {
                            Ok(bytes) if bytes[..] == want[..] => {}
                            Ok(bytes) => {
                                let other = (0..8 * N).any(|i| (i < off || i >= off + w) && (model_bits(&bytes)[i] != bits0[i]));
                                st.fails.push(format!("{{\"n\":{N},\"off\":{off},\"w\":{w},\"entry\":\"{name}\",\"kind\":\"{}\",\"val\":\"{val:#x}\"}}",
                                    if other { "clobbers-other-bits" } else { "wrong-field-bits" }))
                            }
                            Err(_) => st.fails.push(format!("{{\"n\":{N},\"off\":{off},\"w\":{w},\"entry\":\"{name}\",\"kind\":\"panic\"}}")),
                        }
                    };
                    check_set("set", &|u| u.set(off, w as u8, val), st);
                    check_set("raw_set", &|u| unsafe { U::<N>::raw_set(u as *mut _, off, w as u8, val) }, st);
                    if has_const {
                        check_set("set_const", &|u| sc(u, off, w as u8, val), st);
                        check_set("raw_set_const", &|u| rsc(u as *mut _, off, w as u8, val), st);
                    }
                }
            }
        }
    }
}

fn main() {
    std::panic::set_hook(Box::new(|_| {}));
    let mut st = Stats { triples: 0, ops: 0, fails: vec![] };
    @CALLS@
    // de-duplicate (one line per triple x entry x kind)
    st.fails.sort(); st.fails.dedup();
    let mut seen = std::collections::BTreeSet::new();
    println!("{{\"triples\":{},\"ops\":{}}}", st.triples, st.ops);
    for f in &st.fails {
        // key without the value
        let key: String = f.split(",\"val\"").next().unwrap().split(",\"got\"").next().unwrap().to_string();
        if seen.insert(key) { println!("{f}"); }
    }
}
'''


def const_pairs(n, tier):
    """(offset, width) pairs for which the const-generic entry points are instantiated."""
    pairs = []
    full = tier == "thorough" or n <= 2
    bo = {0, 1, 2, 3, 4, 5, 6, 7, 8, 9, 15, 16, 17, 23, 24, 31, 32, 33, 47, 56, 57, 63, 64, 65, 71, 72, 95, 96, 120, 127}
    bw = {1, 2, 3, 7, 8, 9, 15, 16, 17, 24, 31, 32, 33, 48, 56, 57, 58, 59, 60, 61, 62, 63, 64}
    for off in range(8 * n):
        for w in range(1, 65):
            if off + w > 8 * n:
                break
            if full or (off in bo and w in bw) or off + w == 8 * n:
                pairs.append((off, w))
    return pairs


def gen_program(ns, tier):
    tables, calls = [], []
    for n in ns:
        pairs = const_pairs(n, tier)
        arms_g = "".join(f"({o},{w})=>u.get_const::<{o},{w}>()," for o, w in pairs)
        arms_s = "".join(f"({o},{w})=>u.set_const::<{o},{w}>(v)," for o, w in pairs)
        arms_rg = "".join(f"({o},{w})=>unsafe{{U::<{n}>::raw_get_const::<{o},{w}>(u)}}," for o, w in pairs)
        arms_rs = "".join(f"({o},{w})=>unsafe{{U::<{n}>::raw_set_const::<{o},{w}>(u,v)}}," for o, w in pairs)
        has = "".join(f"({o},{w})|" for o, w in pairs).rstrip("|")
        tables.append(f"""
fn has_{n}(o: usize, w: u8) -> bool {{ matches!((o, w), {has}) }}
fn gc_{n}(u: &U<{n}>, o: usize, w: u8) -> u64 {{ match (o, w) {{ {arms_g} _ => unreachable!() }} }}
fn sc_{n}(u: &mut U<{n}>, o: usize, w: u8, v: u64) {{ match (o, w) {{ {arms_s} _ => unreachable!() }} }}
fn rgc_{n}(u: *const U<{n}>, o: usize, w: u8) -> u64 {{ match (o, w) {{ {arms_rg} _ => unreachable!() }} }}
fn rsc_{n}(u: *mut U<{n}>, o: usize, w: u8, v: u64) {{ match (o, w) {{ {arms_rs} _ => unreachable!() }} }}
""")
        calls.append(f"sweep::<{n}>(&mut st, &has_{n}, gc_{n}, sc_{n}, rgc_{n}, rsc_{n});")
    return PROGRAM.replace("@UNIT@", UNIT).replace("@TABLES@", "\n".join(tables)).replace("@CALLS@", "\n    ".join(calls))


def new_check(tier):
    return Check("C03", tier, LEVEL,
                 "states = (storage bytes N in 1..=16, bit offset, bit width 1..=64) triples that fit; transitions = accessor operations "
                 "(8 entry points x 3 fills x value alphabet setting/clearing every bit) compared with a Vec<bool> model; non-trivial = "
                 "triples whose field straddles a byte boundary or is not byte aligned")


def attribute(f):
    """Known-finding predicate for the sweep: the field needs a ninth byte."""
    return "needs-ninth-byte" if f["off"] % 8 + f["w"] > 64 else None


def run_sweep(ck, ns=None, builds=("release", "debug")):
    wd = os.path.join(ck.wd, "sweep")
    os.makedirs(wd, exist_ok=True)
    ns = ns or list(range(1, 17))
    # one program per N so that rustc runs in parallel
    work = []
    for n in ns:
        src = os.path.join(wd, f"sweep_{n}.rs")
        open(src, "w").write(gen_program([n], ck.tier))
        for b in builds:
            work.append((n, b, src))

    def build_run(t):
        n, b, src = t
        exe = os.path.join(wd, f"sweep_{n}_{b}")
        if b == "release":
            ok, err = common.rustc_bin(src, exe, opt=True, timeout=3000)
        else:
            ok, err = common.rustc_bin(src, exe, opt=False, debug_assertions=True, extra=["-C", "overflow-checks=on", "-C", "opt-level=1"], timeout=3000)
        if not ok:
            return n, b, None, err
        p = common.sh([exe], timeout=3000)
        return n, b, p.stdout.decode(), p.stderr.decode()[-500:]

    triples = ops = 0
    for n, b, out, err in common.pmap(build_run, work):
        if out is None:
            raise common.Machinery(f"C03 sweep program does not build for N={n} ({b}): {err[-1500:]}")
        lines = out.strip().splitlines()
        head = json.loads(lines[0])
        if b == "release":
            triples += head["triples"]
        ops += head["ops"]
        for l in lines[1:]:
            f = json.loads(l)
            case = f"sweep N={f['n']} off={f['off']} w={f['w']} entry={f['entry']} build={b} {f['kind']}"
            ck.violation(case, {"kind": "sweep", "n": f["n"], "build": b, "predicate": attribute(f),
                                "why": f"{f['entry']} on storage [u8;{f['n']}] offset {f['off']} width {f['w']}: {f['kind']} {f.get('got','')} {f.get('want','')} {f.get('val','')}"})
    ck.count(triples)
    ck.extra["states"] = triples
    ck.extra["transitions"] = ops
    ck.extra["traces_validated_against_impl"] = triples
    for n in ns:
        for off in range(8 * n):
            for w in (1, 9, 64):
                if off + w <= 8 * n and (off % 8 != 0 or w % 8 != 0):
                    ck.nontriv((n, off, w))
    ck.sample({"N": 3, "offset": 5, "width": 13, "entry_points": ["get", "set", "raw_get", "raw_set", "get_const", "set_const", "raw_get_const", "raw_set_const"]})
    ck.extra["const_generic_pairs"] = sum(len(const_pairs(n, ck.tier)) for n in ns)
    ck.assume("little-endian host only: the cfg!(target_endian = \"big\") branches of bitfield_unit.rs are not executed")


def run(ck, only=None):
    if only and only.get("kind") == "sweep":
        run_sweep(ck, ns=[only["n"]], builds=(only["build"],))
        return
    if ck.tier == "quick":
        run_sweep(ck, ns=[1, 2, 3, 4, 5, 8, 9, 12, 16])
        ck.cap("quick tier: storage sizes {1,2,3,4,5,8,9,12,16}; const-generic entry points on a boundary grid of (offset,width) pairs "
               "(all pairs for N<=2); thorough covers every N in 1..=16 and every pair")
    else:
        run_sweep(ck)
    from . import c03b
    c03b.run(ck, only)


def replay(ck, case, detail):
    n0 = len(ck.violations)
    run(ck, only=detail)
    return not any(c == case for c, _ in ck.violations[n0:])
