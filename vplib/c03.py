"""C03 - bit-field getters, setters and constructors agree bit-for-bit with C.

(a) arithmetic sweep (model checking of the accessor arithmetic): the current tree's
    bindgen/codegen/bitfield_unit.rs is `include!`d into a generated sweep program; every
    (storage bytes N, bit offset, bit width 1..=64) triple that fits is driven through all eight entry
    points (get/set/raw_get/raw_set and their const-generic forms) on three storage fills with a value
    alphabet that sets and clears every bit position, against a Vec<bool> reference model; release and
    debug-assertions builds.
(b) generated records: bit-field runs in structs/unions; C program vs Rust program transcripts
    (see c03b in this module).
"""
import json
import os

from . import common
from .common import Check

LEVEL = "model_checking"
UNIT = os.path.join(common.REPO, "bindgen", "codegen", "bitfield_unit.rs")

PROGRAM = r'''
#![allow(dead_code, unused_unsafe, clippy::all)]
include!("@UNIT@");
use std::panic::{catch_unwind, AssertUnwindSafe};

type U<const N: usize> = __BindgenBitfieldUnit<[u8; N]>;

fn model_bits(bytes: &[u8]) -> Vec<bool> {
    let mut v = Vec::with_capacity(bytes.len() * 8);
    for b in bytes { for i in 0..8 { v.push(b >> i & 1 == 1); } }
    v
}
fn model_bytes(bits: &[bool]) -> Vec<u8> {
    bits.chunks(8).map(|c| c.iter().enumerate().fold(0u8, |a, (i, b)| a | ((*b as u8) << i))).collect()
}
fn model_get(bits: &[bool], off: usize, w: usize) -> u64 {
    (0..w).fold(0u64, |a, i| a | ((bits[off + i] as u64) << i))
}
fn model_set(bits: &mut [bool], off: usize, w: usize, val: u64) {
    for i in 0..w { bits[off + i] = val >> i & 1 == 1; }
}
fn values(w: usize) -> Vec<u64> {
    let mask = if w == 64 { u64::MAX } else { (1u64 << w) - 1 };
    let mut v = vec![0, 1, mask, 0xAAAA_AAAA_AAAA_AAAA, 0x5555_5555_5555_5555, u64::MAX, 1u64 << (w - 1), 0x0123_4567_89AB_CDEF];
    for i in 0..w { v.push(1u64 << i); }
    v
}
fn fills<const N: usize>() -> [[u8; N]; 3] {
    let mut p = [0u8; N];
    let mut x: u32 = 0x9E37_79B9;
    for b in p.iter_mut() { x = x.wrapping_mul(1664525).wrapping_add(1013904223); *b = (x >> 24) as u8; }
    [[0u8; N], [0xFFu8; N], p]
}

struct Stats { triples: u64, ops: u64, fails: Vec<String> }

// const-generic dispatch tables (generated)
@TABLES@

fn sweep<const N: usize>(st: &mut Stats, const_pairs: &dyn Fn(usize, u8) -> bool,
    gc: fn(&U<N>, usize, u8) -> u64, sc: fn(&mut U<N>, usize, u8, u64),
    rgc: fn(*const U<N>, usize, u8) -> u64, rsc: fn(*mut U<N>, usize, u8, u64)) {
    for off in 0..8 * N {
        for w in 1..=64usize {
            if off + w > 8 * N { break; }
            st.triples += 1;
            let has_const = const_pairs(off, w as u8);
            for fill in fills::<N>() {
                let bits0 = model_bits(&fill);
                let want_get = model_get(&bits0, off, w);
                // ---- getters
                let mut check_get = |name: &str, f: &dyn Fn() -> u64, st: &mut Stats| {
                    st.ops += 1;
                    match catch_unwind(AssertUnwindSafe(|| f())) {
                        Ok(v) if v == want_get => {}
                        Ok(v) => st.fails.push(format!("{{\"n\":{N},\"off\":{off},\"w\":{w},\"entry\":\"{name}\",\"kind\":\"wrong-value\",\"got\":\"{v:#x}\",\"want\":\"{want_get:#x}\"}}")),
                        Err(_) => st.fails.push(format!("{{\"n\":{N},\"off\":{off},\"w\":{w},\"entry\":\"{name}\",\"kind\":\"panic\"}}")),
                    }
                };
                let u = U::<N>::new(fill);
                check_get("get", &|| u.get(off, w as u8), st);
                check_get("raw_get", &|| unsafe { U::<N>::raw_get(&u as *const _, off, w as u8) }, st);
                if has_const {
                    check_get("get_const", &|| gc(&u, off, w as u8), st);
                    check_get("raw_get_const", &|| rgc(&u as *const _, off, w as u8), st);
                }
                // ---- setters
                for val in values(w) {
                    let mut bits = bits0.clone();
                    model_set(&mut bits, off, w, val);
                    let want = model_bytes(&bits);
                    let mut check_set = |name: &str, f: &dyn Fn(&mut U<N>), st: &mut Stats| {
                        st.ops += 1;
                        let mut u = U::<N>::new(fill);
                        match catch_unwind(AssertUnwindSafe(|| { f(&mut u); u.storage })) {
                            Ok(bytes) if bytes[..] == want[..] => {}
                            Ok(bytes) => {
                                let other = (0..8 * N).any(|i| (i < off || i >= off + w) && (model_bits(&bytes)[i] != bits0[i]));
                                st.fails.push(format!("{{\"n\":{N},\"off\":{off},\"w\":{w},\"entry\":\"{name}\",\"kind\":\"{}\",\"val\":\"{val:#x}\"}}",
                                    if other { "clobbers-other-bits" } else { "wrong-field-bits" }))
                            }
                            Err(_) => st.fails.push(format!("{{\"n\":{N},\"off\":{off},\"w\":{w},\"entry\":\"{name}\",\"kind\":\"panic\"}}")),
                        }
                    };
                    check_set("set", &|u| u.set(off, w as u8, val), st);
                    check_set("raw_set", &|u| unsafe { U::<N>::raw_set(u as *mut _, off, w as u8, val) }, st);
                    if has_const {
                        check_set("set_const", &|u| sc(u, off, w as u8, val), st);
                        check_set("raw_set_const", &|u| rsc(u as *mut _, off, w as u8, val), st);
                    }
                }
            }
        }
    }
}

fn main() {
    std::panic::set_hook(Box::new(|_| {}));
    let mut st = Stats { triples: 0, ops: 0, fails: vec![] };
    @CALLS@
    // de-duplicate (one line per triple x entry x kind)
    st.fails.sort(); st.fails.dedup();
    let mut seen = std::collections::BTreeSet::new();
    println!("{{\"triples\":{},\"ops\":{}}}", st.triples, st.ops);
    for f in &st.fails {
        // key without the value
        let key: String = f.split(",\"val\"").next().unwrap().split(",\"got\"").next().unwrap().to_string();
        if seen.insert(key) { println!("{f}"); }
    }
}
'''


def const_pairs(n, tier):
    """(offset, width) pairs for which the const-generic entry points are instantiated."""
    pairs = []
    full = tier == "thorough" or n <= 2
    bo = {0, 1, 2, 3, 4, 5, 6, 7, 8, 9, 15, 16, 17, 23, 24, 31, 32, 33, 47, 56, 57, 63, 64, 65, 71, 72, 95, 96, 120, 127}
    bw = {1, 2, 3, 7, 8, 9, 15, 16, 17, 24, 31, 32, 33, 48, 56, 57, 58, 59, 60, 61, 62, 63, 64}
    for off in range(8 * n):
        for w in range(1, 65):
            if off + w > 8 * n:
                break
            if full or (off in bo and w in bw) or off + w == 8 * n:
                pairs.append((off, w))
    return pairs


def gen_program(ns, tier):
    tables, calls = [], []
    for n in ns:
        pairs = const_pairs(n, tier)
        arms_g = "".join(f"({o},{w})=>u.get_const::<{o},{w}>()," for o, w in pairs)
        arms_s = "".join(f"({o},{w})=>u.set_const::<{o},{w}>(v)," for o, w in pairs)
        arms_rg = "".join(f"({o},{w})=>unsafe{{U::<{n}>::raw_get_const::<{o},{w}>(u)}}," for o, w in pairs)
        arms_rs = "".join(f"({o},{w})=>unsafe{{U::<{n}>::raw_set_const::<{o},{w}>(u,v)}}," for o, w in pairs)
        has = "".join(f"({o},{w})|" for o, w in pairs).rstrip("|")
        tables.append(f"""
fn has_{n}(o: usize, w: u8) -> bool {{ matches!((o, w), {has}) }}
fn gc_{n}(u: &U<{n}>, o: usize, w: u8) -> u64 {{ match (o, w) {{ {arms_g} _ => unreachable!() }} }}
fn sc_{n}(u: &mut U<{n}>, o: usize, w: u8, v: u64) {{ match (o, w) {{ {arms_s} _ => unreachable!() }} }}
fn rgc_{n}(u: *const U<{n}>, o: usize, w: u8) -> u64 {{ match (o, w) {{ {arms_rg} _ => unreachable!() }} }}
fn rsc_{n}(u: *mut U<{n}>, o: usize, w: u8, v: u64) {{ match (o, w) {{ {arms_rs} _ => unreachable!() }} }}
""")
        calls.append(f"sweep::<{n}>(&mut st, &has_{n}, gc_{n}, sc_{n}, rgc_{n}, rsc_{n});")
    return PROGRAM.replace("@UNIT@", UNIT).replace("@TABLES@", "\n".join(tables)).replace("@CALLS@", "\n    ".join(calls))


def new_check(tier):
    return Check("C03", tier, LEVEL,
                 "states = (storage bytes N in 1..=16, bit offset, bit width 1..=64) triples that fit; transitions = accessor operations "
                 "(8 entry points x 3 fills x value alphabet setting/clearing every bit) compared with a Vec<bool> model; non-trivial = "
                 "triples whose field straddles a byte boundary or is not byte aligned")


def attribute(f):
    """Known-finding predicate for the sweep: the field needs a ninth byte."""
    return "needs-ninth-byte" if f["off"] % 8 + f["w"] > 64 else None


def run_sweep(ck, ns=None, builds=("release", "debug")):
    wd = os.path.join(ck.wd, "sweep")
    os.makedirs(wd, exist_ok=True)
    ns = ns or list(range(1, 17))
    # one program per N so that rustc runs in parallel
    work = []
    for n in ns:
        src = os.path.join(wd, f"sweep_{n}.rs")
        open(src, "w").write(gen_program([n], ck.tier))
        for b in builds:
            work.append((n, b, src))

    def build_run(t):
        n, b, src = t
        exe = os.path.join(wd, f"sweep_{n}_{b}")
        if b == "release":
            ok, err = common.rustc_bin(src, exe, opt=True, timeout=3000)
        else:
            ok, err = common.rustc_bin(src, exe, opt=False, debug_assertions=True, extra=["-C", "overflow-checks=on", "-C", "opt-level=1"], timeout=3000)
        if not ok:
            return n, b, None, err
        p = common.sh([exe], timeout=3000)
        return n, b, p.stdout.decode(), p.stderr.decode()[-500:]

    triples = ops = 0
    for n, b, out, err in common.pmap(build_run, work):
        if out is None:
            raise common.Machinery(f"C03 sweep program does not build for N={n} ({b}): {err[-1500:]}")
        lines = out.strip().splitlines()
        head = json.loads(lines[0])
        if b == "release":
            triples += head["triples"]
        ops += head["ops"]
        for l in lines[1:]:
            f = json.loads(l)
            case = f"sweep N={f['n']} off={f['off']} w={f['w']} entry={f['entry']} build={b} {f['kind']}"
            ck.violation(case, {"kind": "sweep", "n": f["n"], "build": b, "predicate": attribute(f),
                                "why": f"{f['entry']} on storage [u8;{f['n']}] offset {f['off']} width {f['w']}: {f['kind']} {f.get('got','')} {f.get('want','')} {f.get('val','')}"})
    ck.count(triples)
    ck.extra["states"] = triples
    ck.extra["transitions"] = ops
    ck.extra["traces_validated_against_impl"] = triples
    for n in ns:
        for off in range(8 * n):
            for w in (1, 9, 64):
                if off + w <= 8 * n and (off % 8 != 0 or w % 8 != 0):
                    ck.nontriv((n, off, w))
    ck.sample({"N": 3, "offset": 5, "width": 13, "entry_points": ["get", "set", "raw_get", "raw_set", "get_const", "set_const", "raw_get_const", "raw_set_const"]})
    ck.extra["const_generic_pairs"] = sum(len(const_pairs(n, ck.tier)) for n in ns)
    ck.assume("native execution on the little-endian host; the cfg!(target_endian = \"big\") branches of bitfield_unit.rs and 32-bit usize "
              "arithmetic are executed by the miri interpreter for foreign targets (foreign sweep / foreign records), not on hardware")


# --------------------------------------------------------------------------------------------------
# (a') the same accessor arithmetic executed for FOREIGN targets under miri: big-endian (the
# cfg!(target_endian = "big") branches) and 32-bit (usize arithmetic). The model is an independent one: the
# storage is ONE integer S of 8N bits (big-endian value of the bytes on a big-endian target, little-endian value
# otherwise); a field is (S >> shift) & mask with shift = off (LE) or 8N - off - w (BE: bit `off` is the
# field's most significant bit, which is how C allocates bit-fields on big-endian ABIs - bound to clang by the
# record part, c03c).

PROGRAM_F = r"""
#![allow(warnings)]
include!("@UNIT@");
use std::panic::{catch_unwind, AssertUnwindSafe};
type U<const N: usize> = __BindgenBitfieldUnit<[u8; N]>;
const BE: bool = @BE@;
const N: usize = @N@;
static PAIRS: &[(usize, u8)] = &[@PAIRS@];
fn to_int(b: &[u8]) -> u128 { let mut s = 0u128; if BE { for x in b { s = (s << 8) | *x as u128; } } else { for x in b.iter().rev() { s = (s << 8) | *x as u128; } } s }
fn from_int(s: u128) -> [u8; N] { let mut b = [0u8; N]; for i in 0..N { let sh = if BE { 8 * (N - 1 - i) } else { 8 * i }; b[i] = (s >> sh) as u8; } b }
fn shift(off: usize, w: usize) -> usize { if BE { 8 * N - off - w } else { off } }
fn mask(w: usize) -> u128 { if w == 64 { u64::MAX as u128 } else { (1u128 << w) - 1 } }
fn values(w: usize) -> Vec<u64> {
    let m = mask(w) as u64;
    let mut v = vec![0, m, 0xAAAA_AAAA_AAAA_AAAA, 0x5555_5555_5555_5555, 0x0123_4567_89AB_CDEF, 1, 1u64 << (w - 1), 1u64 << (w / 2), u64::MAX];
    v.dedup(); v
}
fn fills() -> [[u8; N]; 3] {
    let mut p = [0u8; N];
    let mut x: u32 = 0x9E37_79B9;
    for b in p.iter_mut() { x = x.wrapping_mul(1664525).wrapping_add(1013904223); *b = (x >> 24) as u8; }
    [[0u8; N], [0xFFu8; N], p]
}
fn has_const(o: usize, w: u8) -> bool { matches!((o, w), @HAS@) }
fn gc(u: &U<N>, o: usize, w: u8) -> u64 { match (o, w) { @ARMS_G@ _ => unreachable!() } }
fn sc(u: &mut U<N>, o: usize, w: u8, v: u64) { match (o, w) { @ARMS_S@ _ => unreachable!() } }
fn rgc(u: *const U<N>, o: usize, w: u8) -> u64 { match (o, w) { @ARMS_RG@ _ => unreachable!() } }
fn rsc(u: *mut U<N>, o: usize, w: u8, v: u64) { match (o, w) { @ARMS_RS@ _ => unreachable!() } }
fn main() {
    std::panic::set_hook(Box::new(|_| {}));
    assert_eq!(cfg!(target_endian = "big"), BE, "harness: endianness of the interpreted target");
    let mut ops = 0u64;
    let mut fails: Vec<String> = vec![];
    for &(off, w8) in PAIRS {
        let w = w8 as usize;
        let hc = has_const(off, w8);
        for fill in fills() {
            let s0 = to_int(&fill);
            let want_get = ((s0 >> shift(off, w)) & mask(w)) as u64;
            let u = U::<N>::new(fill);
            let mut gets: Vec<(&str, Box<dyn Fn() -> u64>)> = vec![
                ("get", Box::new(move || u.get(off, w8))),
                ("raw_get", Box::new(move || unsafe { U::<N>::raw_get(&u as *const _, off, w8) }))];
            if hc { gets.push(("get_const", Box::new(move || gc(&u, off, w8)))); gets.push(("raw_get_const", Box::new(move || rgc(&u as *const _, off, w8)))); }
            for (name, f) in gets {
                ops += 1;
                match catch_unwind(AssertUnwindSafe(|| f())) {
                    Ok(v) if v == want_get => {}
                    Ok(v) => fails.push(format!("{{\"n\":{N},\"off\":{off},\"w\":{w},\"entry\":\"{name}\",\"kind\":\"wrong-value\",\"got\":\"{v:#x}\",\"want\":\"{want_get:#x}\"}}")),
                    Err(_) => fails.push(format!("{{\"n\":{N},\"off\":{off},\"w\":{w},\"entry\":\"{name}\",\"kind\":\"panic\"}}")),
                }
            }
            for val in values(w) {
                let want = from_int((s0 & !(mask(w) << shift(off, w))) | (((val as u128) & mask(w)) << shift(off, w)));
                let mut sets: Vec<(&str, Box<dyn Fn(&mut U<N>)>)> = vec![
                    ("set", Box::new(move |u: &mut U<N>| u.set(off, w8, val))),
                    ("raw_set", Box::new(move |u: &mut U<N>| unsafe { U::<N>::raw_set(u as *mut _, off, w8, val) }))];
                if hc { sets.push(("set_const", Box::new(move |u: &mut U<N>| sc(u, off, w8, val)))); sets.push(("raw_set_const", Box::new(move |u: &mut U<N>| rsc(u as *mut _, off, w8, val)))); }
                for (name, f) in sets {
                    ops += 1;
                    let mut u = U::<N>::new(fill);
                    match catch_unwind(AssertUnwindSafe(|| { f(&mut u); u.storage })) {
                        Ok(bytes) if bytes == want => {}
                        Ok(bytes) => {
                            let keep = !(mask(w) << shift(off, w));
                            let other = (to_int(&bytes) & keep) != (s0 & keep);
                            fails.push(format!("{{\"n\":{N},\"off\":{off},\"w\":{w},\"entry\":\"{name}\",\"kind\":\"{}\",\"val\":\"{val:#x}\"}}", if other { "clobbers-other-bits" } else { "wrong-field-bits" }))
                        }
                        Err(_) => fails.push(format!("{{\"n\":{N},\"off\":{off},\"w\":{w},\"entry\":\"{name}\",\"kind\":\"panic\"}}")),
                    }
                }
            }
        }
    }
    println!("{{\"pairs\":{},\"ops\":{}}}", PAIRS.len(), ops);
    let mut seen = std::collections::BTreeSet::new();
    for f in &fails {
        let key: String = f.split(",\"val\"").next().unwrap().split(",\"got\"").next().unwrap().to_string();
        if seen.insert(key) { println!("{f}"); }
    }
}
"""

GRID_O = [0, 1, 3, 5, 7, 8, 9, 15, 16, 17, 24, 31, 32, 33, 56, 57, 63, 64, 65, 71, 96, 120, 127]
GRID_W = [1, 2, 3, 7, 8, 9, 16, 17, 31, 32, 33, 56, 57, 58, 63, 64]


def foreign_pairs(n, tier):
    pairs = []
    for off in range(8 * n):
        for w in range(1, 65):
            if off + w > 8 * n:
                break
            if tier == "thorough" or n <= 2 or (off in GRID_O and (w in GRID_W or off + w == 8 * n)):
                pairs.append((off, w))
    return pairs


def gen_program_foreign(n, pairs, be):
    cp = [(o, w) for k, (o, w) in enumerate(pairs) if k % 7 == 0][:40]   # const-generic entry points on a subset (monomorphisation cost)
    rep = {
        "@UNIT@": UNIT, "@BE@": "true" if be else "false", "@N@": str(n),
        "@PAIRS@": ",".join(f"({o},{w})" for o, w in pairs),
        "@HAS@": "|".join(f"({o},{w})" for o, w in cp) or "(999,0)",
        "@ARMS_G@": "".join(f"({o},{w})=>u.get_const::<{o},{w}>()," for o, w in cp),
        "@ARMS_S@": "".join(f"({o},{w})=>u.set_const::<{o},{w}>(v)," for o, w in cp),
        "@ARMS_RG@": "".join(f"({o},{w})=>unsafe{{U::<N>::raw_get_const::<{o},{w}>(u)}}," for o, w in cp),
        "@ARMS_RS@": "".join(f"({o},{w})=>unsafe{{U::<N>::raw_set_const::<{o},{w}>(u,v)}}," for o, w in cp),
    }
    src = PROGRAM_F
    for k, v in rep.items():
        src = src.replace(k, v)
    return src


def run_sweep_foreign(ck, targets, ns, chunk=60, only=None):
    from . import foreign
    foreign.ensure_sysroots(targets)
    wd = os.path.join(ck.wd, "sweep_foreign")
    os.makedirs(wd, exist_ok=True)
    work = []
    for t in targets:
        for n in ns:
            pairs = foreign_pairs(n, ck.tier)
            if only:
                pairs = [(only["off"], only["w"])]
            for k in range(0, len(pairs), chunk):
                work.append((t, n, k // chunk, pairs[k:k + chunk]))

    def one(x):
        t, n, k, pairs = x
        src = os.path.join(wd, f"fs_{t}_{n}_{k}.rs")
        open(src, "w").write(gen_program_foreign(n, pairs, foreign.big_endian(t)))
        rc, out, err = foreign.miri_run(src, t, timeout=3000)
        return t, n, pairs, rc, out, err

    pairs_done = ops = 0
    per_target = {}
    for t, n, pairs, rc, out, err in common.pmap(one, work):
        lines = out.strip().splitlines()
        if rc != 0 or not lines or not lines[0].startswith("{\"pairs\""):
            raise common.Machinery(f"C03 foreign sweep did not run under miri for {t} N={n}: rc={rc} {err[-1200:]}")
        head = json.loads(lines[0])
        pairs_done += head["pairs"]
        ops += head["ops"]
        per_target[t] = per_target.get(t, 0) + head["pairs"]
        for l in lines[1:]:
            f = json.loads(l)
            case = f"sweep target={t} N={f['n']} off={f['off']} w={f['w']} entry={f['entry']} {f['kind']}"
            ck.violation(case, {"kind": "sweep-foreign", "target": t, "n": f["n"], "off": f["off"], "w": f["w"], "predicate": attribute(f),
                                "why": f"{f['entry']} on storage [u8;{f['n']}] offset {f['off']} width {f['w']} interpreted for {t}: {f['kind']} {f.get('got','')} {f.get('want','')} {f.get('val','')}"})
        for (o, w) in pairs:
            if o % 8 or w % 8:
                ck.nontriv((t, n, o, w))
    ck.count(pairs_done)
    ck.extra["foreign_sweep_triples"] = pairs_done
    ck.extra["foreign_sweep_ops"] = ops
    ck.extra["foreign_sweep_targets"] = per_target
    ck.extra["states"] = ck.extra.get("states", 0) + pairs_done
    ck.extra["transitions"] = ck.extra.get("transitions", 0) + ops


def run(ck, only=None):
    if only and only.get("kind") == "sweep":
        run_sweep(ck, ns=[only["n"]], builds=(only["build"],))
        return
    if only and only.get("kind") in ("record", "record-foreign", "sweep-foreign"):
        pass
    elif ck.tier == "quick":
        run_sweep(ck, ns=[1, 2, 3, 4, 5, 8, 9, 12, 16])
        ck.cap("quick tier: storage sizes {1,2,3,4,5,8,9,12,16}; const-generic entry points on a boundary grid of (offset,width) pairs "
               "(all pairs for N<=2); thorough covers every N in 1..=16 and every pair")
    else:
        run_sweep(ck)
    if only and only.get("kind") == "sweep-foreign":
        run_sweep_foreign(ck, [only["target"]], [only["n"]], only=only)
        return
    if not only:
        if ck.tier == "quick":
            run_sweep_foreign(ck, ["s390x-unknown-linux-gnu", "powerpc-unknown-linux-gnu"], [1, 2, 3, 4, 8, 9, 16])
        else:
            run_sweep_foreign(ck, ["s390x-unknown-linux-gnu", "powerpc-unknown-linux-gnu", "mips-unknown-linux-gnu", "i686-unknown-linux-gnu"], list(range(1, 17)), chunk=150)
    from . import c03b, c03c
    c03b.run(ck, only)
    c03c.run(ck, only)


def replay(ck, case, detail):
    n0 = len(ck.violations)
    run(ck, only=detail)
    return not any(c == case for c, _ in ck.violations[n0:])
