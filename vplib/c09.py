"""C09 - allowlisting yields a self-contained, minimal, consistent subset of bindings.

Explored: every 3-node dependency chain head -> mid -> tail over node kinds {struct, union, enum, typedef, function,
variable} with every assignment of edge kinds (field by value / pointer / array / function-pointer parameter,
parameter, result, typedef target, variable type), plus diamonds and pointer cycles, an unrelated node and a
proper-prefix name trap; x EVERY non-empty subset of nodes as allowlist roots x regex forms x {kind-specific
allowlist, allowlist-item, allowlist-file} x {recursive, no-recursive} x a simultaneous blocklist; C++ namespaces,
methods and unnamed enums. Oracle: the generator's own dependency relation (closure / minimality), item-for-item
token equality with the un-allowlisted bindings (consistency), rustc on the allowlisted output alone (closure).
"""
import itertools
import os
import re

from . import common
from .common import Check

LEVEL = "exploration"

NAMES = ["Na", "Nb", "Nc", "Nd"]


class Node:
    def __init__(self, name, kind, mentions):
        self.name, self.kind, self.mentions = name, kind, mentions  # mentions: [(edge kind, target name)]

    def ref(self, tname, tkind):
        return {"struct": f"struct {tname}", "union": f"union {tname}", "enum": f"enum {tname}", "typedef": tname}[tkind]

    def source(self, kinds):
        n = self.name
        parts = []
        for i, (ek, t) in enumerate(self.mentions):
            r = self.ref(t, kinds[t])
            if ek == "val":
                parts.append(f"{r} f{i};")
            elif ek == "ptr":
                parts.append(f"{r} *f{i};")
            elif ek == "arr":
                parts.append(f"{r} f{i}[2];")
            elif ek == "fnparam":
                parts.append(f"void (*f{i})({r} *);")
        if self.kind == "struct":
            return f"struct {n} {{ int own_{n}; {' '.join(parts)} }};"
        if self.kind == "union":
            return f"union {n} {{ int own_{n}; {' '.join(parts)} }};"
        if self.kind == "enum":
            return f"enum {n} {{ {n}_A, {n}_B = 7 }};"
        if self.kind == "typedef":
            if self.mentions:
                ek, t = self.mentions[0]
                r = self.ref(t, kinds[t])
                return f"typedef {r} {'*' if ek == 'tptr' else ''}{n};"
            return f"typedef int {n};"
        if self.kind == "function":
            params, ret = [], "void"
            for i, (ek, t) in enumerate(self.mentions):
                r = self.ref(t, kinds[t])
                if ek == "param":
                    params.append(f"{r} p{i}")
                elif ek == "pparam":
                    params.append(f"{r} *p{i}")
                elif ek == "result":
                    ret = f"{r} *"
            return f"{ret} {n}({', '.join(params) or 'void'});"
        if self.kind == "variable":
            ek, t = self.mentions[0]
            return f"extern {self.ref(t, kinds[t])} {'*' if ek == 'vptr' else ''}{n};"
        raise ValueError(self.kind)


HEAD_EDGES = {"struct": ["val", "ptr", "arr", "fnparam"], "union": ["val", "ptr"], "function": ["param", "pparam", "result"],
              "typedef": ["target", "tptr"], "variable": ["vtype", "vptr"]}
TYPE_KINDS = ["struct", "union", "enum", "typedef"]


def graphs(tier):
    """[(id, [Node...], extra decls)] - chains, diamonds, cycles."""
    out = []
    # chains head -> mid -> tail
    for hk, edges1 in HEAD_EDGES.items():
        for e1 in edges1:
            for mk in ("struct", "typedef", "union"):
                for e2 in HEAD_EDGES[mk]:
                    for tk in TYPE_KINDS:
                        if tk == "enum" and False:
                            continue
                        if tier == "quick" and (hash((hk, e1, mk, e2, tk)) % 3 != 0) and not (e1 in ("ptr", "result") or e2 == "fnparam"):
                            pass
                        nodes = [Node("Na", hk, [(e1, "Nb")]), Node("Nb", mk, [(e2, "Nc")]), Node("Nc", tk, [])]
                        out.append((f"chain {hk}-{e1}->{mk}-{e2}->{tk}", nodes))
    # diamonds: Na -> {Nb, Nc} -> Nd
    for e in ("val", "ptr"):
        for tk in ("struct", "enum", "typedef"):
            nodes = [Node("Na", "struct", [(e, "Nb"), ("ptr", "Nc")]), Node("Nb", "struct", [("val", "Nd")]), Node("Nc", "union", [(e, "Nd")]), Node("Nd", tk, [])]
            out.append((f"diamond {e} {tk}", nodes))
    # cycles through pointers
    nodes = [Node("Na", "struct", [("ptr", "Nb")]), Node("Nb", "struct", [("ptr", "Na"), ("val", "Nc")]), Node("Nc", "enum", [])]
    out.append(("cycle ptr", nodes))
    nodes = [Node("Na", "function", [("pparam", "Nb"), ("result", "Nc")]), Node("Nb", "struct", [("fnparam", "Nc")]), Node("Nc", "struct", [("ptr", "Nb")])]
    out.append(("cycle fn", nodes))
    return out


TRAILER = ["struct Nz { int unrelated; };", "int Nz_fn(struct Nz *z);", "extern int Nz_var;", "struct Nb0 { int trap; };", "typedef int Na1;", "enum { UNNAMED_A, UNNAMED_B };"]


def pieces(nodes):
    """(forward declarations, nodes in definition order): forward declarations let any order work; a node that is needed
    complete (by value, array, typedef target, parameter type, variable type, or because it is an enum / typedef) comes first."""
    kinds = {n.name: n.kind for n in nodes}
    ordered = []
    emitted = set()

    def emit(n):
        if n.name in emitted:
            return
        emitted.add(n.name)
        for ek, t in n.mentions:
            if ek in ("val", "arr", "target", "param", "vtype") or kinds[t] in ("enum", "typedef"):
                emit(next(x for x in nodes if x.name == t))
        ordered.append(n)
    for n in nodes:
        emit(n)
    fwd = [f"{n.kind} {n.name};" for n in nodes if n.kind in ("struct", "union")]
    return fwd, ordered, kinds


def header_of(nodes):
    fwd, ordered, kinds = pieces(nodes)
    # unrelated declarations and the proper-prefix trap
    return "\n".join(fwd + [n.source(kinds) for n in ordered] + TRAILER) + "\n"


def closure(nodes, roots, blocked=()):
    by = {n.name: n for n in nodes}
    seen = set()
    todo = [r for r in roots if r not in blocked]
    while todo:
        a = todo.pop()
        if a in seen or a in blocked:
            continue
        seen.add(a)
        for _, t in by[a].mentions:
            if t not in seen and t not in blocked:
                todo.append(t)
    return seen


KIND_FLAG = {"struct": "--allowlist-type", "union": "--allowlist-type", "enum": "--allowlist-type", "typedef": "--allowlist-type",
             "function": "--allowlist-function", "variable": "--allowlist-var"}


def pattern_forms(name):
    return [("literal", name), ("class", name[:-1] + "[" + name[-1] + "]"), ("alt", f"{name}|NoSuchName"), ("group", f"({name})"), ("dot", name[:-1] + "."),
            ("count", name[:-1] + "[" + name[-1] + "]{1,1}"), ("count-range", name[0] + "[A-Za-z0-9_]{" + str(len(name) - 1) + "," + str(len(name) - 1) + "}")]


def emitted_names(inv):
    """{name: tokens} of named top-level items; foreign items by their own name."""
    out = {}
    for it in inv["items"]:
        if it["kind"] == "foreign_mod":
            for fi in it["items"]:
                out[fi["name"]] = fi["tokens"]
        elif it["kind"] in ("struct", "union", "type", "const", "enum", "static", "fn") and it.get("name") and it["name"] != "_":
            out[it["name"]] = it["tokens"]
        elif it["kind"] == "use":
            m = re.search(r"as\s+(\w+)\s*;", it["tokens"])   # `pub use self::Nc as Nb;` (typedef of an enum)
            if m:
                out[m.group(1)] = it["tokens"]
    return out


def owner(name, nodes):
    for n in nodes:
        if name == n.name or name.startswith(n.name + "_"):
            return n.name
    return None


def new_check(tier):
    return Check("C09", tier, LEVEL,
                 "cases = dependency graphs (every 3-node chain over 6 node kinds x edge kinds; diamonds; pointer cycles) x every non-empty "
                 "root subset x regex form x allowlist kind x recursive/non-recursive x blocklist; non-trivial = (graph, roots) pairs whose "
                 "expected set differs from both the full set and the root set, or that involve a blocklist / regex form")


def run(ck, only=None):
    wd = ck.wd
    gs = graphs(ck.tier)
    if ck.tier == "quick":
        gs = [g for k, g in enumerate(gs) if (k + ck.seed) % 4 == 0 or not g[0].startswith("chain")]
        ck.cap("quick tier: a rotated quarter of the chains (all diamonds and cycles); thorough: all")
    if only:
        gs = [g for g in gs if g[0] == only.get("graph")]
    jobs, meta = [], {}
    pattern_roots, meta_roots, pattern_extras = {}, {}, {}
    for gid, nodes in gs:
        hp = os.path.join(wd, common.sha(gid) + ".h")
        open(hp, "w").write(header_of(nodes))
        names = [n.name for n in nodes]
        kinds = {n.name: n.kind for n in nodes}
        jobs.append({"id": f"{gid}|full", "args": [hp, "--formatter", "none", "--no-layout-tests"], "inventory": True, "timeout": 60})
        meta[f"{gid}|full"] = (gid, nodes, None, None, None)
        subsets = [s for r in range(1, len(names) + 1) for s in itertools.combinations(names, r)]
        for roots in subsets:
            variants = [("kind", [x for r in roots for x in (KIND_FLAG[kinds[r]], r)], set())]
            variants.append(("item", [x for r in roots for x in ("--allowlist-item", r)], set()))
            if len(roots) == 1:
                for fname, pat in pattern_forms(roots[0])[1:]:
                    variants.append((f"form-{fname}", [KIND_FLAG[kinds[roots[0]]], pat], set()))
                    samekind = [x for x in names if KIND_FLAG[kinds[x]] == KIND_FLAG[kinds[roots[0]]]]
                    pattern_roots[(gid, roots, f"form-{fname}")] = tuple(x for x in samekind if re.fullmatch(pat, x))
                    extras = {"--allowlist-type": ["Nz", "Nb0", "Na1"], "--allowlist-function": ["Nz_fn"], "--allowlist-var": ["Nz_var"]}[KIND_FLAG[kinds[roots[0]]]]
                    hit = {x for x in extras if re.fullmatch(pat, x)}
                    if "Nz_fn" in hit:
                        hit.add("Nz")
                    pattern_extras[(gid, roots, f"form-{fname}")] = hit
                variants.append(("norec", [KIND_FLAG[kinds[roots[0]]], roots[0], "--no-recursive-allowlist"], set()))
            if all(kinds[r] in TYPE_KINDS for r in roots):
                # generators for functions / variables switched off: what the allowlisted types need must still be followed
                base = [x for r in roots for x in (KIND_FLAG[kinds[r]], r)]
                variants.append(("ignore-functions", base + ["--ignore-functions"], set()))
                variants.append(("generate-types", base + ["--generate", "types"], set()))
            if len(roots) <= 2:
                for b in names:
                    if kinds[b] in TYPE_KINDS:
                        variants.append((f"block-{b}", [x for r in roots for x in (KIND_FLAG[kinds[r]], r)] + ["--blocklist-type", b], {b}))
            for vname, flags, blocked in variants:
                jid = f"{gid}|{','.join(roots)}|{vname}"
                if only and only.get("job") not in (None, jid):
                    continue
                jobs.append({"id": jid, "args": [hp, "--formatter", "none", "--no-layout-tests"] + flags, "inventory": True, "timeout": 60})
                meta[jid] = (gid, nodes, roots, vname, blocked)
                if (gid, roots, vname) in pattern_roots:
                    meta_roots[jid] = pattern_roots[(gid, roots, vname)]
    res = common.run_jobs(jobs, wd, timeout=60)
    compile_list = []
    for jid, (gid, nodes, roots, vname, blocked) in meta.items():
        if roots is None:
            continue
        ck.count()
        r = res[jid]
        full = res[f"{gid}|full"]
        det = {"graph": gid, "job": jid}
        case = f"graph=[{gid}] roots={list(roots)} variant={vname}"
        if r["status"] != "ok" or full["status"] != "ok":
            ck.violation(case + " generation-failed", dict(det, why=f"{r['status']} {r.get('err') or r.get('panic')}"[:300]))
            continue
        got = emitted_names(r["inventory"])
        fullnames = emitted_names(full["inventory"])
        eff_roots = set(roots)
        if vname.startswith("form-"):
            # whole-name anchored regular expression over every declared name of the flag's kind
            pat = r["__pattern"] if "__pattern" in r else None
        if vname == "norec":
            expect = set(roots)
        else:
            expect = closure(nodes, meta_roots.get(jid, roots)) - set(blocked)
        got_nodes = {owner(n, nodes) for n in got} - {None}
        allowed_extra = pattern_extras.get((gid, roots, vname), set())
        stray = sorted(n for n in got if owner(n, nodes) is None and not n.startswith("__Bindgen") and n not in allowed_extra)
        if allowed_extra - set(got):
            stray.append(f"<pattern also matches {sorted(allowed_extra - set(got))} which were not emitted>")
        probs = []
        if got_nodes != expect:
            missing, extra = sorted(expect - got_nodes), sorted(got_nodes - expect)
            if missing:
                probs.append(f"needed but not emitted: {missing}")
            if extra:
                probs.append(f"emitted although unrelated / blocklisted: {extra}")
        if stray:
            probs.append(f"unrelated items emitted: {stray}")
        for n, tok in got.items():
            if n in fullnames and fullnames[n] != tok and not (blocked or vname == "norec"):
                probs.append(f"item {n} differs from the un-allowlisted bindings")
        if expect not in (set(x.name for x in nodes), set(roots)) or vname != "kind":
            ck.nontriv(jid)
        if probs:
            ck.violation(case, dict(det, why="; ".join(probs)[:600]))
        elif vname != "norec" and not blocked:
            compile_list.append((jid, r["text"]))
    # closure: the allowlisted output compiles on its own (grouped into one crate per 150 outputs, one module each)
    compile_groups(ck, compile_list, meta, wd)
    if not only or only.get("part") == "special":
        special_cases(ck)
    if not only or only.get("part") == "nested":
        nested_definitions(ck)
    if not only or only.get("part") == "optclosure":
        option_dependent_closure(ck)
    if not only or only.get("part") == "anon":
        anon_cases(ck, only)
    if not only or only.get("part") == "ctor":
        constructor_cases(ck, only)
    if not only or only.get("part") == "files":
        fgs = graphs(ck.tier)
        if ck.tier == "quick":
            fgs = [g for k, g in enumerate(fgs) if (k + ck.seed) % 6 == 0 or not g[0].startswith("chain")]
        if only:
            fgs = [g for g in fgs if g[0] == only.get("graph")]
        file_cases(ck, fgs, only)
    ck.sample({"graph": gs[0][0] if gs else None, "header": header_of(gs[0][1]) if gs else None})
    ck.extra["graphs"] = len(gs)
    ck.extra["allowlist_runs"] = len(meta)
    ck.assume("the dependency relation is the generator's own `mentions` relation (pointers included: bindgen defines pointee types it has "
              "seen); blocklisted-root and non-recursive outputs are not compiled (documented as incomplete)")


def compile_groups(ck, items, meta, wd):
    groups = [items[i:i + 150] for i in range(0, len(items), 150)]

    def comp(gi):
        g = groups[gi]
        lines, ranges = ["#![allow(warnings)]"], []
        for k, (jid, text) in enumerate(g):
            body = "\n".join(l for l in text.split("\n") if not l.startswith("/* automatically generated"))
            start = len(lines) + 1
            lines.append(f"pub mod c{k} {{")
            lines += body.split("\n")
            lines.append("}")
            ranges.append((start, len(lines), jid))
        p = os.path.join(wd, f"grp{gi}.rs")
        open(p, "w").write("\n".join(lines))
        pr = common.sh(["rustc", "--edition", "2021", "--crate-type", "lib", "--emit=metadata", "--error-format=short", "-Awarnings", "--out-dir", wd, p], timeout=600)
        bad = {}
        if pr.returncode != 0:
            for m in re.finditer(r"^[^:\n]+:(\d+):\d+: error(?:\[\w+\])?: (.*)$", pr.stderr.decode(errors="replace"), re.M):
                ln = int(m.group(1))
                for a, b, jid in ranges:
                    if a <= ln <= b:
                        bad.setdefault(jid, []).append(m.group(2)[:150])
            if not bad:
                bad["?"] = [pr.stderr.decode(errors="replace")[:300]]
        return bad

    for bad in common.pmap(comp, range(len(groups))):
        for jid, msgs in bad.items():
            if jid == "?":
                raise common.Machinery("C09 grouped compile failed without attributable error: " + msgs[0])
            gid, nodes, roots, vname, blocked = meta[jid]
            ck.violation(f"graph=[{gid}] roots={list(roots)} variant={vname} not-self-contained",
                         {"graph": gid, "job": jid, "why": "the allowlisted bindings do not compile on their own: " + " | ".join(msgs[:3])})
    ck.extra["outputs_compiled"] = ck.extra.get("outputs_compiled", 0) + len(items)


SPECIAL_HPP = r'''
namespace ns { enum { NA = 1, NB = 2 }; int kv; struct In { int x; }; int nf(In *i); namespace deep { struct Dp { In i; }; } }
enum { TOP_A, TOP_B };
int kv_top;
struct foo { int a; }; struct foo_ext { int b; }; struct my_bar { int c; }; struct bar { int d; };
int get(void); int get_all(void); int forget_set(void); int set(int);
class Cls { public: int m(int); static int sm(); struct Inner { int i; }; Inner in; };
struct pyramids { int p; }; struct mid { int m; };
'''


def special_cases(ck):
    """Whole-name anchoring with alternations, unnamed enums addressed through a variant (also inside a namespace), C++ paths."""
    wd = os.path.join(ck.wd, "special")
    os.makedirs(wd, exist_ok=True)
    hp = os.path.join(wd, "special.hpp")
    open(hp, "w").write(SPECIAL_HPP)
    T = [
        (["--allowlist-type", "foo|bar"], {"foo", "bar"}, {"foo_ext", "my_bar"}),
        (["--allowlist-function", "get|set"], {"get", "set"}, {"get_all", "forget_set"}),
        (["--allowlist-item", "foo|mid|bar"], {"foo", "mid", "bar"}, {"pyramids", "foo_ext", "my_bar"}),
        (["--allowlist-type", "foo.*|.*bar", "--blocklist-type", "foo|bar"], {"foo_ext", "my_bar"}, {"foo", "bar"}),
        (["--allowlist-type", "foo"], {"foo"}, {"foo_ext"}),
        (["--allowlist-var", "ns::NA"], {"NA", "NB"}, {"TOP_A", "kv_top"}),
        (["--allowlist-item", "ns::N[AB]"], {"NA", "NB"}, {"TOP_A"}),
        (["--allowlist-var", "NA"], set(), {"NA", "NB"}),
        (["--allowlist-var", "TOP_A"], {"TOP_A", "TOP_B"}, {"NA"}),
        (["--allowlist-var", "kv"], set(), {"ns_kv"}),
        (["--allowlist-var", "ns::kv"], {"ns_kv"}, {"kv_top", "ns_NA"}),
        (["--allowlist-function", "ns::nf"], {"ns_nf", "ns_In"}, {"ns_deep_Dp", "foo"}),
        (["--allowlist-type", "ns::deep::Dp"], {"ns_deep_Dp", "ns_In"}, {"foo", "Cls"}),
        (["--allowlist-type", "Cls"], {"Cls", "Cls_Inner"}, {"foo", "ns_In"}),
    ]
    jobs = [{"id": str(i), "args": [hp, "--formatter", "none", "--no-layout-tests"] + fl + ["--", "-x", "c++", "-std=c++14"], "inventory": True} for i, (fl, _, _) in enumerate(T)]
    res = common.run_jobs(jobs, wd)
    for i, (fl, must, mustnot) in enumerate(T):
        ck.count()
        ck.nontriv(("special", i))
        r = res[str(i)]
        if r["status"] != "ok":
            ck.violation(f"special flags={fl} generation-failed", {"part": "special", "why": str(r)[:200]})
            continue
        names = set(emitted_names(r["inventory"]))
        # methods etc. show up under their mangled wrapper names: compare only the names we reason about
        missing = sorted(must - names)
        extra = sorted(mustnot & names)
        if missing or extra:
            ck.violation(f"special flags={fl}", {"part": "special", "why": f"missing {missing}; wrongly emitted {extra}; emitted {sorted(names)[:14]}"})


NESTED_H = r"""
struct packet { struct header { unsigned char version; unsigned short length; } hdr;
                union payload { int word; char bytes[4]; } body;
                struct { int ax; } anon; enum mode { M_A, M_B } m; int tail; };
struct outer2 { struct mid2 { struct leaf2 { double d; } l; int k; } m; };
struct unrelated { int u; };
typedef struct packet packet_t;
int send_packet(struct packet *p);
"""


def nested_definitions(ck):
    """An allowlisted record that contains the DEFINITIONS of named member types: the inner types come with it (they are part of
    its definition), with and without --no-recursive-allowlist, and every emitted item is token-identical to the full bindings."""
    wd = os.path.join(ck.wd, "nested")
    os.makedirs(wd, exist_ok=True)
    hp = os.path.join(wd, "nested.h")
    open(hp, "w").write(NESTED_H)
    base = [hp, "--formatter", "none", "--with-derive-default", "--with-derive-hash", "--with-derive-partialeq"]
    T = [("packet", ["--allowlist-type", "packet"]), ("packet-norec", ["--allowlist-type", "packet", "--no-recursive-allowlist"]),
         ("packet-item-norec", ["--allowlist-item", "packet", "--no-recursive-allowlist"]),
         ("outer2-norec", ["--allowlist-type", "outer2", "--no-recursive-allowlist"]), ("outer2", ["--allowlist-type", "outer2"]),
         ("fn-norec", ["--allowlist-function", "send_packet", "--allowlist-type", "packet", "--no-recursive-allowlist"]),
         ("typedef-norec", ["--allowlist-type", "packet_t", "--allowlist-type", "packet", "--no-recursive-allowlist"])]
    jobs = [{"id": "full", "args": base, "inventory": True}] + [{"id": n, "args": base + fl, "inventory": True} for n, fl in T]
    res = common.run_jobs(jobs, wd)
    common.guard(res["full"]["status"] == "ok", "C09 nested-definition header failed to generate: " + str(res["full"])[:200])

    def items(inv):
        out = {}
        for k, it in enumerate(inv["items"]):
            if it["kind"] in ("struct", "union", "type", "const", "enum", "static", "fn") and it.get("name") and it["name"] != "_":
                out[it["name"]] = it["tokens"]
            elif it["kind"] == "assert_block":
                out[f"assert:{common.sha(it['tokens'])}"] = it["tokens"]
            elif it["kind"] == "impl":
                out[f"impl:{it.get('trait')}:{it.get('self_ty')}"] = it["tokens"]
            elif it["kind"] == "foreign_mod":
                for fi in it["items"]:
                    out[fi["name"]] = fi["tokens"]
        return out
    full = items(res["full"]["inventory"])
    expect = {"packet": {"packet", "packet_header", "packet_payload", "packet_mode"}, "outer2": {"outer2", "outer2_mid2", "outer2_mid2_leaf2"}}
    for n, fl in T:
        ck.count()
        ck.nontriv(("nested", n))
        r = res[n]
        if r["status"] != "ok":
            ck.violation(f"nested case={n} generation-failed", {"part": "nested", "why": str(r)[:200]})
            continue
        got = items(r["inventory"])
        want = expect["outer2" if n.startswith("outer2") else "packet"]
        missing = sorted(x for x in want if x not in got)
        differ = sorted(k for k, v in got.items() if k in full and full[k] != v)
        alien = sorted(k for k in got if k not in full and not k.startswith("assert:"))
        unrelated = sorted(k for k in got if k in ("unrelated",) or (n.startswith("outer2") and k.startswith("packet")) or (n.startswith("packet") and k.startswith("outer2")))
        if missing or differ or alien or unrelated:
            ck.violation(f"nested case={n}", {"part": "nested", "why": f"flags {fl}: missing {missing}; items that differ from the un-allowlisted bindings {differ[:6]}; "
                                                                      f"items that do not exist there {alien[:6]}; unrelated items {unrelated}"})
        # the output must compile on its own (its layout assertions included)
        bp = os.path.join(wd, f"{n}.rs")
        open(bp, "w").write("#![allow(warnings)]\n" + r["text"])
        ok, err = common.rustc_meta(bp)
        if not ok:
            ck.violation(f"nested case={n} not-self-contained", {"part": "nested", "why": " | ".join(re.findall(r"error(?:\[E\d+\])?: .*", err)[:3])[:400]})
    ck.extra["nested_definition_runs"] = len(T)


def option_dependent_closure(ck):
    """Closures that depend on another option or on where a declaration lives: (a) with --no-size_t-is-usize the names size_t /
    ssize_t are ordinary typedefs that an allowlisted item needs; (b) --allowlist-file together with --allowlist-item /
    --allowlist-function / --allowlist-var for something declared in ANOTHER file (the union of the selections)."""
    wd = os.path.join(ck.wd, "optclosure")
    os.makedirs(wd, exist_ok=True)
    open(os.path.join(wd, "util.h"), "w").write("typedef unsigned long size_t;\ntypedef long ssize_t;\ntypedef size_t count_t;\nstruct util_rec { size_t n; };\n"
                                                "int util_fn(struct util_rec *r);\nextern ssize_t util_var;\nint util_other(void);\n")
    open(os.path.join(wd, "api.h"), "w").write('#include "util.h"\nsize_t api_len(const char *s);\nssize_t api_read(count_t n);\nstruct api_buf { count_t used; };\nint api_plain(int);\n')
    hp = os.path.join(wd, "api.h")
    T = [("size_t-fn", ["--no-size_t-is-usize", "--allowlist-function", "api_len"], {"api_len", "size_t"}, {"api_plain", "util_other"}),
         ("ssize_t-fn", ["--no-size_t-is-usize", "--allowlist-function", "api_read"], {"api_read", "ssize_t", "count_t", "size_t"}, {"api_plain"}),
         ("size_t-type", ["--no-size_t-is-usize", "--allowlist-type", "api_buf"], {"api_buf", "count_t", "size_t"}, {"api_len"}),
         ("size_t-default", ["--allowlist-function", "api_len"], {"api_len"}, {"api_plain"}),
         ("size_t-norec", ["--no-size_t-is-usize", "--allowlist-function", "api_plain", "--no-recursive-allowlist"], {"api_plain"}, {"size_t", "ssize_t", "api_len"}),
         ("file+item-fn", ["--allowlist-file", ".*api\\.h", "--allowlist-item", "util_fn"], {"api_len", "api_plain", "util_fn", "util_rec"}, {"util_other"}),
         ("file+item-var", ["--allowlist-file", ".*api\\.h", "--allowlist-item", "util_var"], {"api_len", "util_var"}, {"util_other", "util_fn"}),
         ("file+function", ["--allowlist-file", ".*api\\.h", "--allowlist-function", "util_fn"], {"api_len", "util_fn", "util_rec"}, {"util_other"}),
         ("file+var", ["--allowlist-file", ".*api\\.h", "--allowlist-var", "util_var"], {"api_plain", "util_var"}, {"util_other"}),
         ("file+type", ["--allowlist-file", ".*api\\.h", "--allowlist-type", "util_rec"], {"api_buf", "util_rec"}, {"util_other", "util_fn"})]
    res = common.run_jobs([{"id": n, "args": [hp, "--formatter", "none", "--no-layout-tests"] + fl, "inventory": True} for n, fl, _, _ in T], wd)
    for n, fl, must, mustnot in T:
        r = res[n]
        ck.count()
        ck.nontriv(("optclosure", n))
        if r["status"] != "ok":
            ck.violation(f"option-closure case={n} generation-failed", {"part": "optclosure", "why": str(r)[:200]})
            continue
        names = set(emitted_names(r["inventory"]))
        missing, extra = sorted(must - names), sorted(mustnot & names)
        bp = os.path.join(wd, f"{n.replace('+', '_')}.rs")
        open(bp, "w").write("#![allow(warnings)]\n" + r["text"])
        ok, err = common.rustc_meta(bp)
        if missing or extra or not ok:
            ck.violation(f"option-closure case={n}", {"part": "optclosure", "why": f"flags {fl}: missing {missing}; wrongly emitted {extra}; " +
                         ("compiles" if ok else "does not compile on its own: " + " | ".join(re.findall(r"error(?:\[E\d+\])?: .*", err)[:2]))[:300]})
    ck.extra["option_dependent_closure_runs"] = len(T)


def file_cases(ck, gs, only=None):
    """--allowlist-file: the declarations of each graph are split over two included files at every position of the definition
    order; allowlisting one file must emit exactly the closure of the nodes defined in it (the rest of the oracle as above)."""
    wd = os.path.join(ck.wd, "files")
    os.makedirs(wd, exist_ok=True)
    jobs, meta = [], {}
    for gi, (gid, nodes) in enumerate(gs):
        fwd, ordered, kinds = pieces(nodes)
        for k in range(1, len(ordered)):
            d = os.path.join(wd, f"g{gi}_{k}")
            os.makedirs(d, exist_ok=True)
            parts = {"part_a.h": ordered[:k], "part_b.h": ordered[k:]}
            for fn, ns in parts.items():
                text = "\n".join(n.source(kinds) for n in ns) + "\n"
                if fn == "part_b.h" and (gi + k) % 2 == 0:
                    # file-system condition: the included name is a symbolic link to a differently named file elsewhere; the
                    # pattern is matched against the name the header was included by
                    os.makedirs(os.path.join(d, "detail"), exist_ok=True)
                    open(os.path.join(d, "detail", "impl_v2.h"), "w").write(text)
                    if not os.path.lexists(os.path.join(d, fn)):
                        os.symlink("detail/impl_v2.h", os.path.join(d, fn))
                else:
                    open(os.path.join(d, fn), "w").write(text)
            hp = os.path.join(d, "main.h")
            open(hp, "w").write("\n".join(fwd + ['#include "part_a.h"', '#include "part_b.h"'] + TRAILER) + "\n")
            base = [hp, "--formatter", "none", "--no-layout-tests"]
            jobs.append({"id": f"{gi}|{k}|full", "args": base, "inventory": True})
            for fn, ns in parts.items():
                for vname, extra in (("file", []), ("file+ignore-functions", ["--ignore-functions"])):
                    if extra and not all(n.kind in TYPE_KINDS for n in ns):
                        continue
                    jid = f"{gi}|{k}|{fn}|{vname}"
                    jobs.append({"id": jid, "args": base + ["--allowlist-file", ".*/" + fn.replace(".", "\\.")] + extra, "inventory": True})
                    meta[jid] = (gid, nodes, tuple(n.name for n in ns), vname, f"{gi}|{k}|full")
    res = common.run_jobs(jobs, wd, timeout=60)
    comp = []
    for jid, (gid, nodes, roots, vname, fullid) in meta.items():
        ck.count()
        ck.nontriv(("file", jid))
        r, full = res[jid], res[fullid]
        case = f"graph=[{gid}] allowlist-file split={jid.split('|')[1]} file={jid.split('|')[2]} variant={vname}"
        det = {"part": "files", "graph": gid, "job": jid}
        if r["status"] != "ok" or full["status"] != "ok":
            ck.violation(case + " generation-failed", dict(det, why=f"{r['status']} {r.get('err') or r.get('panic')}"[:300]))
            continue
        got, fullnames = emitted_names(r["inventory"]), emitted_names(full["inventory"])
        expect = closure(nodes, roots)
        got_nodes = {owner(n, nodes) for n in got} - {None}
        stray = sorted(n for n in got if owner(n, nodes) is None and not n.startswith("__Bindgen"))
        probs = []
        if got_nodes != expect:
            missing, extra = sorted(expect - got_nodes), sorted(got_nodes - expect)
            if missing:
                probs.append(f"needed but not emitted: {missing}")
            if extra:
                probs.append(f"emitted although not in the file and not needed by it: {extra}")
        if stray:
            probs.append(f"unrelated items emitted: {stray}")
        for n, tok in got.items():
            if n in fullnames and fullnames[n] != tok:
                probs.append(f"item {n} differs from the un-allowlisted bindings")
        if probs:
            ck.violation(case, dict(det, why="; ".join(probs)[:600]))
        else:
            comp.append((jid, r["text"]))
    cmeta = {jid: (meta[jid][0] + " allowlist-file", [], [jid.split("|")[2]], meta[jid][3], set()) for jid, _ in comp}
    compile_groups(ck, comp, cmeta, wd)
    ck.extra["allowlist_file_runs"] = len(meta)


CONSTRUCTORS = [
    ("vector", "typedef {e} {t}_w __attribute__((vector_size(16)));"),
    ("ext-vector", "typedef {e} {t}_w __attribute__((ext_vector_type(4)));"),
    ("complex-of-typedef", "typedef struct {{ {e} re; {e} im; }} {t}_w;"),
    ("array", "typedef {e} {t}_w[3];"),
    ("array2d", "typedef {e} {t}_w[2][2];"),
    ("pointer", "typedef {e} *{t}_w;"),
    ("pointer-to-array", "typedef {e} (*{t}_w)[4];"),
    ("const-volatile", "typedef const volatile {e} {t}_w;"),
    ("function-type", "typedef {e} {t}_w({e}, int);"),
    ("function-pointer", "typedef {e} (*{t}_w)({e} *);"),
    ("function-returning-fnptr", "typedef {e} (*(*{t}_w)(int))({e});"),
    ("atomic", "typedef _Atomic {e} {t}_w;"),
    ("bitfield-base", "typedef struct {{ {e2} bits:3; int rest; }} {t}_w;"),
    ("incomplete-array-member", "typedef struct {{ int n; {e} tail[]; }} {t}_w;"),
    ("union-member", "typedef union {{ {e} a; char b[8]; }} {t}_w;"),
    ("enum-typed-field", "typedef struct {{ {e3} tag; }} {t}_w;"),
]


def constructor_cases(ck, only=None):
    """A typedef that is reachable from the allowlisted root ONLY through one rarely used type constructor must still be emitted
    (and the output must compile): one header per constructor x four kinds of root."""
    wd = os.path.join(ck.wd, "ctor")
    os.makedirs(wd, exist_ok=True)
    roots = {"struct-member": ("struct {t}_root {{ {t}_w m; int k; }};", "--allowlist-type", "{t}_root"),
             "function-param": ("void {t}_root({t}_w *p);", "--allowlist-function", "{t}_root"),
             "variable": ("extern {t}_w *{t}_root;", "--allowlist-var", "{t}_root"),
             "typedef": ("typedef {t}_w {t}_root;", "--allowlist-type", "{t}_root")}
    jobs, meta = [], {}
    for ci, (cname, ctext) in enumerate(CONSTRUCTORS):
        for rname, (rtext, flag, pat) in roots.items():
            t = f"Q{ci}"
            jid = f"{cname}|{rname}"
            if only and only.get("job") != jid:
                continue
            if cname == "function-type" and rname in ("struct-member",):
                continue  # a function type cannot be a member
            src = (f"typedef float {t}_elem;\ntypedef unsigned {t}_uelem;\nenum {t}_tag {{ {t}_T0, {t}_T1 }};\ntypedef enum {t}_tag {t}_tag_t;\n"
                   + ctext.format(t=t, e=f"{t}_elem", e2=f"{t}_uelem", e3=f"{t}_tag_t") + "\n" + rtext.format(t=t) + "\nstruct unrelated_z { int z; };\n")
            hp = os.path.join(wd, f"c{ci}_{rname}.h")
            open(hp, "w").write(src)
            jobs.append({"id": jid, "args": [hp, "--formatter", "none", "--no-layout-tests", flag, pat.format(t=t)], "inventory": True})
            need = {"function-type": f"{t}_elem", "bitfield-base": f"{t}_uelem", "enum-typed-field": f"{t}_tag_t"}.get(cname, f"{t}_elem")
            meta[jid] = (need, f"{t}_w", src)
    res = common.run_jobs(jobs, wd)
    comp = []
    for jid, (need, w, src) in meta.items():
        ck.count()
        ck.nontriv(("ctor", jid))
        r = res[jid]
        case = f"constructor {jid}"
        det = {"part": "ctor", "job": jid}
        if r["status"] != "ok":
            ck.violation(case + " generation-failed", dict(det, why=str(r)[:200]))
            continue
        names = set(emitted_all(r["inventory"]))
        probs = []
        if w in names and need not in names:
            probs.append(f"{w} is emitted but the typedef it is built from ({need}) is not")
        if "unrelated_z" in names:
            probs.append("an unrelated struct is emitted")
        if probs:
            ck.violation(case, dict(det, why="; ".join(probs) + f"; header: {src[:160]}"))
        else:
            comp.append((jid, r["text"]))
    cmeta = {jid: (f"constructor {jid}", [], [jid], "ctor", set()) for jid, _ in comp}
    compile_groups(ck, comp, cmeta, wd)
    ck.extra["constructor_runs"] = len(meta)


ANON_H = r'''
enum { FLAG_A = 1, FLAG_B = 2 };
enum { MODE_X = 10, MODE_Y };
enum { LIMIT_SOFT = 100, LIMIT_HARD };
struct Outer { struct { int a; } in1; union { int u; float f; } in2; enum { OE_A, OE_B } oe; struct { int b; }; };
typedef struct { int x; } AnonT;
typedef union { int y; char z; } AnonU;
int use_outer(struct Outer *o); int use_anon(AnonT *t, AnonU *u);
extern int gv;
'''
ANON_ROOTS = [("--allowlist-var", "FLAG_A", "FLAG_A"), ("--allowlist-var", "MODE_Y", "MODE_Y"), ("--allowlist-var", "LIMIT_.*", "LIMIT_SOFT"),
              ("--allowlist-function", "use_outer", "use_outer"), ("--allowlist-function", "use_anon", "use_anon"), ("--allowlist-var", "gv", "gv"),
              ("--allowlist-type", "Outer", "Outer"), ("--allowlist-type", "AnonU", "AnonU")]
ANON_STYLES = [("consts", []), ("rust", ["--default-enum-style", "rust"]), ("newtype", ["--default-enum-style", "newtype"]),
               ("moduleconsts", ["--default-enum-style", "moduleconsts"])]


def anon_cases(ck, only=None):
    """Unnamed enums / anonymous records get generated names (_bindgen_ty_N, Outer__bindgen_ty_N): every non-empty subset of
    eight roots x four enum styles; each emitted item must be token-identical to the item of that name in the full bindings."""
    wd = os.path.join(ck.wd, "anon")
    os.makedirs(wd, exist_ok=True)
    hp = os.path.join(wd, "anon.h")
    open(hp, "w").write(ANON_H)
    subsets = [s for r in range(1, len(ANON_ROOTS) + 1) for s in itertools.combinations(range(len(ANON_ROOTS)), r)]
    if ck.tier == "quick":
        subsets = [s for s in subsets if len(s) <= 2 or len(s) == len(ANON_ROOTS)]
    jobs = []
    for sn, sf in ANON_STYLES:
        jobs.append({"id": f"{sn}|full", "args": [hp, "--formatter", "none", "--no-layout-tests"] + sf, "inventory": True})
        for sub in subsets:
            fl = [x for i in sub for x in ANON_ROOTS[i][:2]]
            jobs.append({"id": f"{sn}|{','.join(map(str, sub))}", "args": [hp, "--formatter", "none", "--no-layout-tests"] + sf + fl, "inventory": True})
    res = common.run_jobs(jobs, wd)
    comp = []
    for j in jobs:
        sn, sub = j["id"].split("|")
        if sub == "full":
            continue
        ck.count()
        ck.nontriv(("anon", j["id"]))
        r, full = res[j["id"]], res[f"{sn}|full"]
        roots = [ANON_ROOTS[int(i)][2] for i in sub.split(",")]
        case = f"anonymous-items style={sn} roots={roots}"
        det = {"part": "anon", "job": j["id"]}
        if r["status"] != "ok" or full["status"] != "ok":
            ck.violation(case + " generation-failed", dict(det, why=str(r)[:200]))
            continue
        got, fn = emitted_all(r["inventory"]), emitted_all(full["inventory"])
        probs = []
        for n, tok in got.items():
            if n not in fn:
                probs.append(f"item {n} does not exist in the un-allowlisted bindings")
            elif fn[n] != tok:
                probs.append(f"item {n} differs from the un-allowlisted bindings")
        for rt in roots:
            if not any(rt == n or n.endswith("::" + rt) for n in got):
                probs.append(f"allowlisted {rt} not emitted")
        if probs:
            ck.violation(case, dict(det, why="; ".join(probs)[:500]))
        else:
            comp.append((j["id"], r["text"]))
    meta = {jid: (f"anonymous-items {jid}", [], [jid], "anon", set()) for jid, _ in comp}
    compile_groups(ck, comp, meta, wd)
    ck.extra["anonymous_item_runs"] = len(jobs)


def emitted_all(inv, prefix=""):
    """{path: tokens} of every named item, variants of enums and items inside modules included."""
    out = {}
    for it in inv["items"]:
        k, n = it["kind"], it.get("name")
        if k == "foreign_mod":
            for fi in it["items"]:
                out[prefix + fi["name"]] = fi["tokens"]
        elif k == "mod" and n:
            out.update(emitted_all(it, prefix + n + "::"))
        elif k == "impl":
            out[prefix + f"impl {it.get('trait')} for {it.get('self_ty')}"] = it["tokens"]
        elif k == "use":
            m = re.search(r"as\s+(\w+)\s*;", it["tokens"])   # `pub use self::E as E_t;` (typedef of an enum)
            if m:
                out[prefix + m.group(1)] = it["tokens"]
        elif n and n != "_":
            out[prefix + n] = it["tokens"]
    return out


def replay(ck, case, detail):
    n0 = len(ck.violations)
    run(ck, only=detail)
    return not any(c == case for c, _ in ck.violations[n0:])
