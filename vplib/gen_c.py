"""Typed generator of C record declarations (shared by C01 C02 C03b C06 C08 C10).

A *case* is one top-level record (struct/union) `K<n>` with supporting declarations; its canonical id is a
string built from the member atoms and the record attributes, so the same shape has the same id in every
check. Families are enumerated by (number of members <= w) over MEMBER atoms x RECORD_ATTRS x {struct, union}.
"""
import itertools

RUST_KEYWORDS = {"type", "fn", "self", "Self", "crate", "super", "gen", "try", "async", "dyn", "box", "_", "match", "loop", "impl",
                 "use", "mod", "move", "ref", "mut", "pub", "where", "as", "in", "let", "trait", "unsafe", "extern", "abstract",
                 "become", "final", "macro", "override", "priv", "typeof", "unsized", "virtual", "yield", "await"}


class Atom:
    """One member (or member run) of a record."""

    def __init__(self, key, decl, fields, support="", last_only=False, cxx_ok=True):
        self.key = key            # short canonical name
        self.decl = decl          # C declaration text with {p} = per-position prefix for member names
        self.fields = fields      # list of (name_template, kind) for probe-able named members; kind in
        #                           sint uint float ptr bool enum agg arr bits_s bits_u
        self.support = support    # declarations needed before the record ({t} = case tag)
        self.last_only = last_only
        self.cxx_ok = cxx_ok


A = Atom
ATOMS = [
    A("char", "char {p}c;", [("{p}c", "sint")]),
    A("uchar", "unsigned char {p}uc;", [("{p}uc", "uint")]),
    A("short", "short {p}s;", [("{p}s", "sint")]),
    A("int", "int {p}i;", [("{p}i", "sint")]),
    A("uint", "unsigned {p}u;", [("{p}u", "uint")]),
    A("llong", "long long {p}ll;", [("{p}ll", "sint")]),
    A("float", "float {p}f;", [("{p}f", "float")]),
    A("double", "double {p}d;", [("{p}d", "float")]),
    A("ldouble", "long double {p}ld;", [("{p}ld", "agg")]),
    A("i128", "__int128 {p}q;", [("{p}q", "agg")]),
    A("bool", "_Bool {p}b;", [("{p}b", "bool")]),
    A("ptr", "void *{p}p;", [("{p}p", "ptr")]),
    A("cptr", "const char *{p}cp;", [("{p}cp", "ptr")]),
    A("fnptr", "int (*{p}fp)(int, char);", [("{p}fp", "agg")]),
    A("arr3c", "char {p}a3[3];", [("{p}a3", "arr")]),
    A("arr2i", "int {p}a2[2];", [("{p}a2", "arr")]),
    A("arr2d", "short {p}m[2][3];", [("{p}m", "arr")]),
    A("enum", "enum {t}_E {p}e;", [("{p}e", "enum")], support="enum {t}_E {{ {t}_E0, {t}_E1 = 70000 }};"),
    A("nest5", "struct {t}_N5 {p}n5;", [("{p}n5", "agg")], support="struct {t}_N5 {{ char c[5]; }};"),
    A("nestpk", "struct {t}_NP {p}np;", [("{p}np", "agg")], support="struct __attribute__((packed)) {t}_NP {{ char c; int i; }};"),
    A("nestal", "struct {t}_NA {p}na;", [("{p}na", "agg")], support="struct __attribute__((aligned(16))) {t}_NA {{ char c; }};"),
    A("anons", "struct {{ char {p}ax; short {p}ay; }};", [("{p}ax", "sint"), ("{p}ay", "sint")]),
    A("anonu", "union {{ int {p}ui; char {p}uc6[6]; }};", [("{p}ui", "sint")]),
    A("td", "{t}_td3 {p}t;", [("{p}t", "uint")], support="typedef unsigned short {t}_td1; typedef {t}_td1 {t}_td2; typedef {t}_td2 {t}_td3;"),
    A("bfA", "unsigned {p}ba:3; unsigned {p}bb:5;", [("{p}ba", "bits_u"), ("{p}bb", "bits_u")]),
    A("bfB", "unsigned long long {p}bw:33; signed char {p}bt:2;", [("{p}bw", "bits_u"), ("{p}bt", "bits_s")]),
    A("bfC", "int {p}bs:7; int :0; int {p}bu:9;", [("{p}bs", "bits_s"), ("{p}bu", "bits_s")]),
    A("zla", "int {p}z[0];", []),
    A("flex", "int {p}fl[];", [], last_only=True),
    A("kw", "int {k0}; char {k1};", [("{k0}", "sint"), ("{k1}", "sint")]),
]
# atoms used only by the derive check (C08): both sides of the 12-parameter and 32-element limits, a 33-byte bit-field unit
EXTRA_ATOMS = [
    A("fnptr12", "int (*{p}f12)(int, int, int, int, int, int, int, int, int, int, int, int);", [("{p}f12", "agg")]),
    A("fnptr13", "int (*{p}f13)(int, int, int, int, int, int, int, int, int, int, int, int, int);", [("{p}f13", "agg")]),
    # variadic function pointers: the `...` is not a parameter, so 12 named parameters + `...` is still inside the limit
    A("fnv12", "int (*{p}v12)(int, int, int, int, int, int, int, int, int, int, int, int, ...);", [("{p}v12", "agg")]),
    A("fnv13", "int (*{p}v13)(int, int, int, int, int, int, int, int, int, int, int, int, int, ...);", [("{p}v13", "agg")]),
    A("fnv1", "int (*{p}v1)(const char *, ...);", [("{p}v1", "agg")]),
    A("arr32", "int {p}a32[32];", [("{p}a32", "arr")]),
    A("arr33", "int {p}a33[33];", [("{p}a33", "arr")]),
    A("bf32B", "unsigned long long {p}w0:64; unsigned long long {p}w1:64; unsigned long long {p}w2:64; unsigned long long {p}w3:63;", []),
    A("bf33B", "unsigned long long {p}v0:64; unsigned long long {p}v1:64; unsigned long long {p}v2:64; unsigned long long {p}v3:64; unsigned char {p}v4:1;", []),
    A("nestplain", "struct {t}_NQ {p}nq;", [("{p}nq", "agg")], support="struct {t}_NQ {{ int a; short b; }};"),
    A("nestfloat", "struct {t}_NF {p}nf;", [("{p}nf", "agg")], support="struct {t}_NF {{ int a; float f; }};"),
    A("ptrarr", "int *{p}pa[4];", [("{p}pa", "arr")]),
    # pointers to typedef'd function types and typedef'd function pointers, both sides of the 12-parameter limit
    A("fntd2", "{t}_fn2 *{p}ft2;", [("{p}ft2", "agg")], support="typedef int {t}_fn2(int, char);"),
    A("fntd13", "{t}_fn13 *{p}ft13;", [("{p}ft13", "agg")], support="typedef int {t}_fn13(int, int, int, int, int, int, int, int, int, int, int, int, int);"),
    A("pfntd13", "{t}_pfn13 {p}pf13;", [("{p}pf13", "agg")], support="typedef int (*{t}_pfn13)(int, int, int, int, int, int, int, int, int, int, int, int, int);"),
    # arrays whose element is aligned to more than 8 bytes (one- and two-dimensional, through a typedef'd row, scalar element)
    A("oal1d", "struct {t}_V1 {p}o1[2];", [("{p}o1", "arr")], support="struct __attribute__((aligned(16))) {t}_V1 {{ float v[4]; }};"),
    A("oal2d", "struct {t}_V2 {p}o2[2][3];", [("{p}o2", "arr")], support="struct __attribute__((aligned(16))) {t}_V2 {{ float v[4]; }};"),
    A("oalrow", "{t}_Row3 {p}o3[2];", [("{p}o3", "arr")], support="struct __attribute__((aligned(32))) {t}_V3 {{ char c; }}; typedef struct {t}_V3 {t}_Row3[3];"),
    A("i128x2d", "__int128 {p}o4[2][2];", [("{p}o4", "arr")]),
    A("ldx2d", "long double {p}o5[3][2];", [("{p}o5", "arr")]),
    # pointers to functions with calling conventions Rust cannot / can name (the unsupported ones become pointer-sized blobs)
    A("fpvec", "void (__attribute__((vectorcall)) *{p}fv)(int);", [("{p}fv", "agg")]),
    A("fpmsv", "int (__attribute__((ms_abi)) *{p}fw)(int, ...);", [("{p}fw", "agg")]),
    A("fppm", "void (__attribute__((preserve_most)) *{p}fm)(int);", [("{p}fm", "agg")]),
    A("fpms", "int (__attribute__((ms_abi)) *{p}fs)(int);", [("{p}fs", "agg")]),
    # Manually-tier element types inside small arrays (C08): nested arrays past the 32 limit, arrays of records holding 13-parameter pointers
    A("arr2x40", "int {p}x40[2][40];", [("{p}x40", "arr")]),
    A("arrfn13", "struct {t}_H13 {p}h13[2];", [("{p}h13", "arr")], support="struct {t}_H13 {{ int (*f)(int, int, int, int, int, int, int, int, int, int, int, int, int); }};"),
    A("arrarr33", "struct {t}_A33 {p}a33s[2];", [("{p}a33s", "arr")], support="struct {t}_A33 {{ char big[33]; }};"),
]
# records on both sides of every size threshold the code might have (1 MiB and beyond): only used where asked for by name
EXTRA_ATOMS += [A("huge1m", "char {p}hm[1048560];", [("{p}hm", "arr")]), A("huge1m1", "char {p}hn[1048577];", [("{p}hn", "arr")]),
                A("huge16m", "int {p}ho[4194305];", [("{p}ho", "arr")]),
                # member offsets beyond 2^31 and 2^32 BITS (256 MiB and 512 MiB of bytes in front of a member)
                A("huge256m", "char {p}hp[268435457];", [("{p}hp", "arr")]), A("huge512m", "char {p}hq[536870913];", [("{p}hq", "arr")])]
# anonymous (declarator-less) members that are over-aligned: libclang reports no field offset for them, so the layout tracker
# places them itself
EXTRA_ATOMS += [A("anonal16", "struct {{ int {p}lo; int {p}hi; }} __attribute__((aligned(16)));", [("{p}lo", "sint"), ("{p}hi", "sint")]),
                A("anonuld", "union {{ long double {p}uld; char {p}raw[16]; }};", [("{p}raw", "arr")]),
                A("anonal32", "struct {{ char {p}c32; }} __attribute__((aligned(32)));", [("{p}c32", "sint")])]
ANON_OVERALIGNED_ATOMS = ["anonal16", "anonuld", "anonal32"]
STD_NAME_ATOMS = []
OVERALIGNED_ARRAY_ATOMS = ["oal1d", "oal2d", "oalrow", "i128x2d", "ldx2d"]
FNPTR_ABI_ATOMS = ["fpvec", "fpmsv", "fppm", "fpms"]
# typedef NAMES that bindgen maps by name (or might): the <stdint.h> / <stddef.h> families as the host libc defines them
from .gen_fn import STD_NAMES as _STD_NAMES  # noqa: E402
for _n, (_s, _b) in _STD_NAMES.items():
    EXTRA_ATOMS.append(A("sd_" + _n, _n + " {p}" + _n[:3] + str(_b) + ";", [("{p}" + _n[:3] + str(_b), "sint" if _s else "uint")],
                         support="#include <stdint.h>\n#include <stddef.h>\ntypedef long ssize_t;"))
    STD_NAME_ATOMS.append("sd_" + _n)
ATOM = {a.key: a for a in ATOMS + EXTRA_ATOMS}

# record attributes: (key, text before `struct`, attribute after `struct`, text after the declaration)
RECORD_ATTRS = [
    ("plain", "", "", ""),
    ("packed", "", "__attribute__((packed))", ""),
    ("al2", "", "__attribute__((aligned(2)))", ""),
    ("al4", "", "__attribute__((aligned(4)))", ""),
    ("al8", "", "__attribute__((aligned(8)))", ""),
    ("al16", "", "__attribute__((aligned(16)))", ""),
    ("al64", "", "__attribute__((aligned(64)))", ""),
    ("pk_al4", "", "__attribute__((packed, aligned(4)))", ""),
    ("pp1", "#pragma pack(push, 1)\n", "", "\n#pragma pack(pop)"),
    ("pp2", "#pragma pack(push, 2)\n", "", "\n#pragma pack(pop)"),
    ("pp4", "#pragma pack(push, 4)\n", "", "\n#pragma pack(pop)"),
    ("pp8", "#pragma pack(push, 8)\n", "", "\n#pragma pack(pop)"),
]
# attributes that do NOT change the layout and that libclang reports as "unexposed" (only used where asked for by name)
NEUTRAL_RECORD_ATTRS = [
    ("dep", "", "__attribute__((deprecated))", ""), ("unused", "", "__attribute__((unused))", ""), ("mayalias", "", "__attribute__((may_alias))", ""),
    ("depmsg", "", "__attribute__((deprecated(\"old\")))", ""), ("vis", "", "__attribute__((visibility(\"default\")))", ""),
    ("al4+dep", "", "__attribute__((aligned(4), deprecated))", ""),
]
# member attributes applied to the LAST plain member of a record (suffix before ';')
MEMBER_ATTRS = [("", ""), ("mal8", "__attribute__((aligned(8)))"), ("mal16", "__attribute__((aligned(16)))"), ("mal64", "__attribute__((aligned(64)))"), ("mpk", "__attribute__((packed))"),
                ("mdep", "__attribute__((deprecated))"), ("munused", "__attribute__((unused))")]


KW_BY_POS = [("type", "fn"), ("match", "impl"), ("mod", "use"), ("loop", "dyn")]  # Rust keywords that are plain C identifiers


def fmt(text, pos, t=""):
    k0, k1 = KW_BY_POS[pos % len(KW_BY_POS)]
    return text.format(p=f"m{pos}_", t=t, k0=k0, k1=k1)


class RecordCase:
    def __init__(self, tag, kind, atoms, rattr="plain", mattr=""):
        self.tag = tag
        self.kind = kind              # "struct" | "union"
        self.atoms = atoms            # list of atom keys
        self.rattr = rattr
        self.mattr = mattr
        self.cid = f"{kind}[{rattr}{'+' + mattr if mattr else ''}]({','.join(atoms)})"

    def c_name(self):
        return f"{self.kind} {self.tag}"

    def fields(self):
        """[(c_name, kind)] of probe-able named members in declaration order."""
        out = []
        for pos, k in enumerate(self.atoms):
            a = ATOM[k]
            for nm, kind in a.fields:
                out.append((fmt(nm, pos), kind))
        return out

    def source(self):
        t = self.tag
        sup = []
        for k in self.atoms:
            s = ATOM[k].support.format(t=t)
            if s and s not in sup:
                sup.append(s)
        pre, attr, post = next((b, a, c) for (key, b, a, c) in RECORD_ATTRS + NEUTRAL_RECORD_ATTRS if key == self.rattr)
        body = []
        mtext = dict(MEMBER_ATTRS)[self.mattr] if self.mattr else ""
        for pos, k in enumerate(self.atoms):
            d = fmt(ATOM[k].decl, pos, t)
            if mtext and pos == len(self.atoms) - 1 and d.count(";") == 1 and ":" not in d:
                d = d[:-1] + " " + mtext + ";"
            body.append(d)
        return "\n".join(sup + [f"{pre}{self.kind} {attr} {t} {{ {' '.join(body)} }};{post}"])


def rust_field(name):
    return name + "_" if name in RUST_KEYWORDS else name


def enumerate_records(w, atoms=None, rattrs=None, kinds=("struct", "union"), mattrs=("",)):
    """All records with 1..w members. Deterministic order, simplest first."""
    atoms = atoms or [a.key for a in ATOMS]
    rattrs = rattrs or [r[0] for r in RECORD_ATTRS]
    n = 0
    out = []
    for width in range(1, w + 1):
        for combo in itertools.product(atoms, repeat=width):
            if any(ATOM[k].last_only for k in combo[:-1]):
                continue
            if width == 1 and ATOM[combo[0]].last_only:
                continue  # a flexible array cannot be the only member
            for kind in kinds:
                if kind == "union" and any(k in ("flex",) for k in combo):
                    continue
                for ra in rattrs:
                    for ma in mattrs:
                        if ma and (ATOM[combo[-1]].decl.count(";") != 1 or ":" in ATOM[combo[-1]].decl):
                            continue
                        n += 1
                        out.append(RecordCase(f"K{n}", kind, list(combo), ra, ma))
    return out
