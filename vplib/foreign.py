"""Foreign-target executors and oracles (C02 / C03 parts that leave the host).

Nothing here runs target code natively. Three tools are combined:

* `cargo +nightly miri setup --target T` builds a sysroot (libcore / libstd) for T from rust-src, offline, into
  WORK/miri/T (about 50 s, all targets in parallel). With that sysroot
    - the nightly `rustc --target T --emit=metadata` type-checks bindings generated for T and evaluates every
      `const` assertion with T's data layout (size / alignment / offsets as rustc computes them for T);
    - the `miri` driver interprets a Rust program for T, big-endian and 32-bit targets included, so generated
      bit-field accessors are *executed* with T's endianness and pointer width.
* `clang --target=T -c` compiles initialised C objects for T; the bytes of every global are read back from the
  object file's data section (llvm-nm + llvm-objcopy): what C stores, without running C on T.
"""
import fcntl
import json
import os
import re

from . import common

TOOLCHAIN = os.path.expanduser("~/.rustup/toolchains/nightly-x86_64-unknown-linux-gnu")
MIRI = os.path.join(TOOLCHAIN, "bin", "miri")
NIGHTLY_RUSTC = os.path.join(TOOLCHAIN, "bin", "rustc")
SYSROOTS = os.path.join(common.ROOT, "work", "miri")   # shared by runs with different VERIF_WORK

# rust triple -> (clang triple, big endian, pointer bits)
TARGETS = {
    "x86_64-unknown-linux-gnu": ("x86_64-unknown-linux-gnu", False, 64),
    "i686-unknown-linux-gnu": ("i686-unknown-linux-gnu", False, 32),
    "aarch64-unknown-linux-gnu": ("aarch64-unknown-linux-gnu", False, 64),
    "armv7-unknown-linux-gnueabihf": ("armv7-unknown-linux-gnueabihf", False, 32),
    "riscv64gc-unknown-linux-gnu": ("riscv64-unknown-linux-gnu", False, 64),
    "x86_64-pc-windows-msvc": ("x86_64-pc-windows-msvc", False, 64),
    "i686-pc-windows-msvc": ("i686-pc-windows-msvc", False, 32),
    "s390x-unknown-linux-gnu": ("s390x-unknown-linux-gnu", True, 64),
    "powerpc-unknown-linux-gnu": ("powerpc-unknown-linux-gnu", True, 32),
    "powerpc64-unknown-linux-gnu": ("powerpc64-unknown-linux-gnu", True, 64),
    "mips-unknown-linux-gnu": ("mips-unknown-linux-gnu", True, 32),
}


def clang_triple(t):
    return TARGETS[t][0]


def big_endian(t):
    return TARGETS[t][1]


def sysroot(t):
    return os.path.join(SYSROOTS, t)


def _have(t):
    return os.path.isdir(os.path.join(sysroot(t), "lib", "rustlib", t, "lib")) and os.path.exists(os.path.join(sysroot(t), ".ok"))


def ensure_sysroots(targets):
    """Build the missing sysroots (in parallel; a lock file serialises concurrent checks)."""
    os.makedirs(SYSROOTS, exist_ok=True)
    if not (os.path.exists(MIRI) and os.path.exists(NIGHTLY_RUSTC)):
        raise common.Machinery("nightly toolchain with miri not found at " + TOOLCHAIN)
    with open(os.path.join(SYSROOTS, ".lock"), "w") as lk:
        fcntl.flock(lk, fcntl.LOCK_EX)
        todo = [t for t in targets if not _have(t)]

        def build(t):
            env = dict(common.ENV, MIRI_SYSROOT=sysroot(t))
            p = common.sh(["cargo", "+nightly", "miri", "setup", "--target", t], env=env, cwd=SYSROOTS, timeout=1800)
            if p.returncode != 0 or not os.path.isdir(os.path.join(sysroot(t), "lib", "rustlib", t, "lib")):
                return t, p.stderr.decode(errors="replace")[-1500:]
            open(os.path.join(sysroot(t), ".ok"), "w").write("ok")
            return t, None
        for t, err in common.pmap(build, todo):
            if err:
                raise common.Machinery(f"cannot build a sysroot for {t} (cargo +nightly miri setup): {err}")


def rustc_check(path, target, edition="2021", timeout=900, out_dir=None):
    """Type-check + const-evaluate a crate for `target`. Returns (ok, [json diagnostics of level error])."""
    out_dir = out_dir or os.path.dirname(path)
    cmd = [NIGHTLY_RUSTC, "--edition", edition, "--crate-type", "lib", "--emit=metadata", "-Awarnings", "--error-format=json",
           "--target", target, "--sysroot", sysroot(target), "--out-dir", out_dir, "--crate-name", "probe_" + re.sub(r"\W", "_", target), path]
    p = common.sh(cmd, timeout=timeout)
    errs = []
    for line in p.stderr.decode(errors="replace").splitlines():
        try:
            d = json.loads(line)
        except ValueError:
            continue
        if d.get("level") == "error":
            errs.append(d)
    if p.returncode != 0 and not errs:
        raise common.Machinery(f"nightly rustc failed without a diagnostic for {target}: {p.stderr.decode(errors='replace')[-800:]}")
    return p.returncode == 0, errs


def miri_run(path, target, timeout=1800, flags=()):
    """Interpret a Rust program for `target`. Returns (returncode, stdout, stderr tail)."""
    cmd = [MIRI, "--sysroot", sysroot(target), "--target", target, "--edition", "2021", "-Awarnings",
           "-Zmiri-disable-isolation", "-Zmiri-ignore-leaks", "-Zmiri-disable-stacked-borrows", "-Zmiri-disable-validation"] + list(flags) + [path]
    try:
        p = common.sh(cmd, timeout=timeout)
    except Exception as e:  # subprocess.TimeoutExpired
        return -9, "", f"timeout {e}"
    return p.returncode, p.stdout.decode(errors="replace"), p.stderr.decode(errors="replace")[-3000:]


def clang_data_images(csrc_path, target, wd, lang="c", extra=()):
    """Compile `csrc_path` for `target` and return {global name: bytes} for every object in .data.
    Returns (None, error text) when clang rejects the source."""
    obj = csrc_path + "." + target + ".o"
    std = ["-x", "c++", "-std=c++14"] if lang == "cpp" else ["-std=gnu11"]
    rc, _, err = common.clang(std + [f"--target={clang_triple(target)}", "-c", "-O0", "-w", "-fno-common", "-fno-zero-initialized-in-bss",
                                     "-fno-data-sections", "-o", obj, csrc_path] + (["-msmall-data-limit=0"] if target.startswith("riscv") else [])
                           + list(extra), cwd=wd, timeout=600)
    if rc != 0:
        return None, err[:1500]
    binp = obj + ".data.bin"
    if os.path.exists(binp):
        os.remove(binp)
    p = common.sh(["llvm-objcopy", "-O", "binary", "--only-section=.data", obj, binp], timeout=120)
    if p.returncode != 0:
        raise common.Machinery("llvm-objcopy failed: " + p.stderr.decode(errors="replace")[:500])
    data = open(binp, "rb").read() if os.path.exists(binp) else b""
    p = common.sh(["llvm-nm", "-S", "--defined-only", obj], timeout=120)
    if p.returncode != 0:
        raise common.Machinery("llvm-nm failed: " + p.stderr.decode(errors="replace")[:500])
    out = {}
    syms = []
    for line in p.stdout.decode().splitlines():
        parts = line.split()
        if len(parts) == 3 and parts[1] in ("D", "d"):      # COFF: no symbol sizes
            parts = [parts[0], "0", parts[1], parts[2]]
        if len(parts) != 4 or parts[2] not in ("D", "d"):
            continue
        syms.append((int(parts[0], 16), int(parts[1], 16), parts[3].lstrip("_") if target.startswith("i686-pc-windows") else parts[3]))
    syms.sort()
    for k, (addr, size, name) in enumerate(syms):
        if size == 0:
            # object format without symbol sizes: up to the next symbol (may include alignment padding after the object;
            # callers compare the prefix that is as long as the Rust object and require the rest to be zero)
            size = (syms[k + 1][0] if k + 1 < len(syms) else len(data)) - addr
        if addr + size > len(data):
            raise common.Machinery(f"symbol {name} outside .data ({addr}+{size} > {len(data)}) for {target}")
        out[name] = data[addr:addr + size]
    return out, None


def exact_sizes(target):
    """Does the object format of `target` record symbol sizes (ELF) or not (COFF)?"""
    return "windows" not in target
